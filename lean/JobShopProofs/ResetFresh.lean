import JobShopProofs.FeatureWorld
/-!
# C12 — a reset, at any point of any history, gives back the freshly constructed world

`C12_fresh_fixpoint`: resetting the freshly constructed world changes nothing.  `C12_reset_forgets`: the reset world
does not depend on what happened since construction.  `C12_world`: both together.
-/
namespace JS
namespace RF

open FWReset (EstSh)

/-! ## worlds -/

theorem world_ext {w w' : FWorld} (h1 : w.cfg = w'.cfg) (h2 : w.s = w'.s) (h3 : w.subs = w'.subs)
    (h4 : w.heap = w'.heap) : w = w' := by
  cases w; cases w'; simp only at h1 h2 h3 h4; subst h1 h2 h3 h4; rfl

theorem setObs_self {w : FWorld} {id : Nat} {o : FObs} (h : w.heap[id]? = some o) : w.setObs id o = w := by
  refine world_ext (w := w.setObs id o) (w' := w) rfl rfl rfl ?_
  simp only [FWorld.setObs]
  apply List.ext_getElem?
  intro i
  by_cases hi : id = i
  · subst hi
    have hlt : id < w.heap.length := (List.getElem?_eq_some_iff.1 h).1
    rw [List.getElem?_set_self hlt, h]
  · rw [List.getElem?_set_ne hi]

theorem setObs_setObs (w : FWorld) (id : Nat) (a b : FObs) : (w.setObs id a).setObs id b = w.setObs id b := by
  simp only [FWorld.setObs, List.set_set]

theorem get_setObs_self {w : FWorld} {id : Nat} (hlt : id < w.heap.length) (o : FObs) :
    (w.setObs id o).heap[id]? = some o := by
  simp [FWorld.setObs, hlt]

theorem get_setObs_ne (w : FWorld) {id k : Nat} (hne : id ≠ k) (o : FObs) :
    (w.setObs id o).heap[k]? = w.heap[k]? := by
  simp only [FWorld.setObs]
  rw [List.getElem?_set_ne hne]

theorem lt_of_get {w : FWorld} {k : Nat} {o : FObs} (h : w.heap[k]? = some o) : k < w.heap.length :=
  (List.getElem?_eq_some_iff.1 h).1

theorem get_push_lt (w : FWorld) (o : FObs) {k : Nat} (h : k < w.heap.length) : (w.push o).1.heap[k]? = w.heap[k]? := by
  simp only [FWorld.push]
  rw [List.getElem?_append_left h]

theorem get_push_new (w : FWorld) (o : FObs) : (w.push o).1.heap[w.heap.length]? = some o := by
  simp [FWorld.push]

/-! ## the static part of an observer -/

/-- everything but the columns -/
def nc (o : FObs) : FObs := { o with cols := [] }

/-- the fields a dispatch or a reset cannot change, by kind (the others are blanked) -/
def stat (o : FObs) : FObs :=
  match o.kind with
  | .isReady | .duration | .isScheduled | .positionInJob | .remainingOps => { o with cols := [] }
  | .earliestStart => { o with cols := [], est := [] }
  | .isCompleted => { o with cols := [], remJob := if o.has .jobs then [] else o.remJob,
                             remMach := if o.has .machines then [] else o.remMach }
  | .composite => { o with cols := [], fts := [] }
  | .unscheduled => { o with deques := [] }
  | .history => { o with hist := [] }
  | .makespanReward => { o with rewards := [], curMakespan := 0 }
  | .idleReward => { o with rewards := [] }
  | .residual => { o with graph := {} }

theorem stat_kind (o : FObs) : (stat o).kind = o.kind := by
  unfold stat; split <;> rfl

theorem stat_parts (o : FObs) : (stat o).parts = o.parts := by
  unfold stat; split <;> rfl

theorem stat_fts (o : FObs) (h : o.kind ≠ .composite) : (stat o).fts = o.fts := by
  unfold stat; split <;> first | rfl | (rename_i hk; exact absurd hk h)

theorem kind_of_stat {o o' : FObs} (h : stat o = stat o') : o.kind = o'.kind := by
  rw [← stat_kind o, ← stat_kind o', h]

theorem parts_of_stat {o o' : FObs} (h : stat o = stat o') : o.parts = o'.parts := by
  rw [← stat_parts o, ← stat_parts o', h]

theorem fts_of_stat {o o' : FObs} (h : stat o = stat o') (hk : o.kind ≠ .composite) : o.fts = o'.fts := by
  rw [← stat_fts o hk, ← stat_fts o' (kind_of_stat h ▸ hk), h]

/-- static equivalence of the entries at index `k` of two worlds -/
def SEq (c : Cfg) (k : Nat) (o o' : FObs) : Prop :=
  stat o = stat o' ∧ (o.kind = .earliestStart → EstSh c.I o.est ∧ EstSh c.I o'.est) ∧
  (o.kind = .composite → ∀ i ∈ o.parts, i < k)

theorem SEq.kind {c : Cfg} {k : Nat} {o o' : FObs} (h : SEq c k o o') : o.kind = o'.kind := kind_of_stat h.1

theorem seq_self {c : Cfg} {k : Nat} {x : FObs} (h1 : x.kind = .earliestStart → EstSh c.I x.est)
    (h2 : x.kind = .composite → ∀ i ∈ x.parts, i < k) : SEq c k x x :=
  ⟨rfl, fun h => ⟨h1 h, h1 h⟩, h2⟩

theorem seq_self_plain {c : Cfg} {k : Nat} {x : FObs} (h1 : x.kind ≠ .earliestStart) (h2 : x.kind ≠ .composite) :
    SEq c k x x :=
  seq_self (fun h => absurd h h1) (fun h => absurd h h2)

/-! ## transformers that only touch the columns -/

theorem nc_setCol (o : FObs) (ft : FT) (col : List Int) : nc (o.setCol ft col) = nc o := rfl
theorem nc_zeroed (I : Instance) (o : FObs) : nc (o.zeroed I) = nc o := rfl

theorem nc_foldl {α} (f : FObs → α → FObs) (hf : ∀ o a, nc (f o a) = nc o) : ∀ (l : List α) (o : FObs),
    nc (l.foldl f o) = nc o
  | [], _ => rfl
  | a :: t, o => by simp only [List.foldl_cons]; rw [nc_foldl f hf t, hf]

theorem nc_assignCols (o : FObs) (g : FObs → FT → List Int) : nc (o.assignCols g) = nc o := by
  unfold FObs.assignCols
  exact nc_foldl (fun o ft => o.setCol ft (g o ft)) (fun _ _ => rfl) _ _

theorem zeroed_of_nc {o o' : FObs} (I : Instance) (h : nc o = nc o') : o.zeroed I = o'.zeroed I :=
  congrArg (fun x => x.zeroed I) h

theorem nc_isReadyFeatures (c : Cfg) (s : State) (o : FObs) : nc (isReadyFeatures c s o) = nc o := by
  unfold isReadyFeatures; rw [nc_assignCols]; rfl

theorem nc_estFeatures (c : Cfg) (s : State) (o : FObs) : nc (estFeatures c s o) = nc o := nc_assignCols _ _
theorem nc_durationInit (c : Cfg) (s : State) (o : FObs) : nc (durationInit c s o) = nc o := nc_assignCols _ _
theorem nc_durationUpdate (c : Cfg) (s : State) (x : SOp) (o : FObs) : nc (durationUpdate c s x o) = nc o :=
  nc_assignCols _ _
theorem nc_isScheduledUpdate (c : Cfg) (s : State) (x : SOp) (o : FObs) : nc (isScheduledUpdate c s x o) = nc o :=
  nc_assignCols _ _

theorem nc_positionInit (c : Cfg) (s : State) (o : FObs) : nc (positionInit c s o) = nc o := by
  unfold positionInit; split <;> rfl

theorem nc_positionUpdate (c : Cfg) (x : SOp) (o : FObs) : nc (positionUpdate c x o) = nc o := by
  unfold positionUpdate; split <;> rfl

theorem nc_ite (b : Bool) (o o1 : FObs) (h : nc o1 = nc o) : nc (if b = true then o1 else o) = nc o := by
  split
  · exact h
  · rfl

theorem nc_remainingInit (c : Cfg) (d : List (List OpRef)) (o : FObs) : nc (remainingInit c d o) = nc o := by
  unfold remainingInit
  apply nc_foldl
  intro o r
  dsimp only
  have h1 : nc (if o.has .jobs = true then o.setCol .jobs (addAt (o.col .jobs) r.1 1) else o) = nc o := nc_ite _ _ _ rfl
  generalize (if o.has .jobs = true then o.setCol .jobs (addAt (o.col .jobs) r.1 1) else o) = o1 at h1
  rw [← h1]
  cases getOp c.I r.1 r.2 with
  | none => simp only [ite_self]
  | some op => exact nc_ite _ _ _ rfl

theorem nc_remainingUpdate (x : SOp) (o : FObs) : nc (remainingUpdate x o) = nc o := by
  unfold remainingUpdate
  dsimp only
  have h1 : nc (if o.has .jobs = true then o.setCol .jobs (addAt (o.col .jobs) x.job (-1)) else o) = nc o := nc_ite _ _ _ rfl
  generalize (if o.has .jobs = true then o.setCol .jobs (addAt (o.col .jobs) x.job (-1)) else o) = o1 at h1
  rw [← h1]
  exact nc_ite _ _ _ rfl

theorem kind_of_nc {o o' : FObs} (h : nc o = nc o') : o.kind = o'.kind := by
  show (nc o).kind = (nc o').kind; rw [h]
theorem fts_of_nc {o o' : FObs} (h : nc o = nc o') : o.fts = o'.fts := by
  show (nc o).fts = (nc o').fts; rw [h]
theorem est_of_nc {o o' : FObs} (h : nc o = nc o') : o.est = o'.est := by
  show (nc o).est = (nc o').est; rw [h]
theorem parts_of_nc {o o' : FObs} (h : nc o = nc o') : o.parts = o'.parts := by
  show (nc o).parts = (nc o').parts; rw [h]

/-- for the feature kinds the static part does not look at the columns -/
theorem stat_of_nc {o o' : FObs} (hk : o.kind.isFeature = true) (h : nc o = nc o') : stat o = stat o' := by
  have e : ∀ x : FObs, x.kind.isFeature = true → stat x = stat (nc x) := by
    intro x hx
    unfold stat
    cases hkx : x.kind <;> rw [hkx] at hx <;> first | exact absurd hx (by decide) | (simp only [nc, hkx]; try rfl)
  rw [e o hk, e o' (kind_of_nc h ▸ hk), h]

/-! ## a dispatch notification preserves the static part -/

theorem stat_isCompleted {o : FObs} (hk : o.kind = .isCompleted) :
    stat o = { o with cols := [], remJob := if o.has .jobs then [] else o.remJob,
                      remMach := if o.has .machines then [] else o.remMach } := by
  unfold stat; simp only [hk]

theorem stat_icMach (ms : List Nat) {o : FObs} (hk : o.kind = .isCompleted) : stat (icMach ms o) = stat o := by
  unfold icMach
  split
  · rename_i hh
    rw [stat_isCompleted hk, stat_isCompleted (by exact hk)]
    have h2 : o.has .machines = true := hh
    simp only [FObs.has] at h2 ⊢
    simp only [FObs.setCol, h2, if_true]
    rfl
  · rfl

theorem stat_icJobs (x : SOp) {o : FObs} (hk : o.kind = .isCompleted) : stat (icJobs x o) = stat o := by
  unfold icJobs
  split
  · rename_i hh
    rw [stat_isCompleted hk, stat_isCompleted (by exact hk)]
    have h2 : o.has .jobs = true := hh
    simp only [FObs.has] at h2 ⊢
    simp only [FObs.setCol, h2, if_true]
    rfl
  · rfl

theorem nc_icOps (c : Cfg) (s : State) (o : FObs) : nc (icOps c s o) = nc o := by
  unfold icOps; split <;> rfl

theorem kind_icMach (ms : List Nat) (o : FObs) : (icMach ms o).kind = o.kind := by
  unfold icMach; split <;> rfl

theorem stat_ic (c : Cfg) (s : State) (x : SOp) (ms : List Nat) {o : FObs} (hk : o.kind = .isCompleted) :
    stat (icJobs x (icMach ms (icOps c s o))) = stat o := by
  have k1 : (icOps c s o).kind = .isCompleted := (kind_of_nc (nc_icOps c s o)).trans hk
  have k2 : (icMach ms (icOps c s o)).kind = .isCompleted := (kind_icMach _ _).trans k1
  rw [stat_icJobs x k2, stat_icMach _ k1]
  exact stat_of_nc (by rw [k1]; rfl) (nc_icOps c s o)

theorem stat_updObs (c : Cfg) (s : State) (x : SOp) (hp : List FObs) (o : FObs) :
    stat (updObs c s x hp o) = stat o := by
  cases hk : o.kind
  case isReady =>
    have e : updObs c s x hp o = isReadyFeatures c s o := by simp only [updObs, hk]
    rw [e]
    exact stat_of_nc (by rw [kind_of_nc (nc_isReadyFeatures c s o), hk]; rfl) (nc_isReadyFeatures c s o)
  case earliestStart =>
    have e : updObs c s x hp o = estFeatures c s { o with est := estCompute c.I s o.est } := by simp only [updObs, hk]
    rw [e]
    have h1 := nc_estFeatures c s { o with est := estCompute c.I s o.est }
    rw [stat_of_nc (by rw [kind_of_nc h1]; show o.kind.isFeature = true; rw [hk]; rfl) h1]
    unfold stat
    simp only [hk]
  case duration =>
    have e : updObs c s x hp o = durationUpdate c s x o := by simp only [updObs, hk]
    rw [e]
    exact stat_of_nc (by rw [kind_of_nc (nc_durationUpdate c s x o), hk]; rfl) (nc_durationUpdate c s x o)
  case isScheduled =>
    have e : updObs c s x hp o = isScheduledUpdate c s x o := by simp only [updObs, hk]
    rw [e]
    exact stat_of_nc (by rw [kind_of_nc (nc_isScheduledUpdate c s x o), hk]; rfl) (nc_isScheduledUpdate c s x o)
  case positionInJob =>
    have e : updObs c s x hp o = positionUpdate c x o := by simp only [updObs, hk]
    rw [e]
    exact stat_of_nc (by rw [kind_of_nc (nc_positionUpdate c x o), hk]; rfl) (nc_positionUpdate c x o)
  case remainingOps =>
    have e : updObs c s x hp o = remainingUpdate x o := by simp only [updObs, hk]
    rw [e]
    exact stat_of_nc (by rw [kind_of_nc (nc_remainingUpdate x o), hk]; rfl) (nc_remainingUpdate x o)
  case isCompleted =>
    have e : updObs c s x hp o = isCompletedUpdate c s x o := by simp only [updObs, hk]
    rw [e, isCompletedUpdate_eq]
    exact stat_ic c s x _ hk
  all_goals (unfold updObs stat; simp only [hk])

theorem updObs_est (c : Cfg) (s : State) (x : SOp) (hp : List FObs) {o : FObs} (hk : o.kind = .earliestStart) :
    (updObs c s x hp o).est = estCompute c.I s o.est := by
  have e : updObs c s x hp o = estFeatures c s { o with est := estCompute c.I s o.est } := by simp only [updObs, hk]
  rw [e]
  exact est_of_nc (nc_estFeatures c s _)

theorem estSh_compute (I : Instance) (s : State) {est : List (List Int)} (h : EstSh I est) : EstSh I (estCompute I s est) := by
  have := estCompute_spec I s est h
  exact ⟨this.1, this.2.1⟩

theorem seq_updObs {c : Cfg} {k : Nat} {o o' : FObs} (s : State) (x : SOp) (hp : List FObs) (h : SEq c k o o') :
    SEq c k (updObs c s x hp o) o' := by
  have hst := stat_updObs c s x hp o
  have hkind : (updObs c s x hp o).kind = o.kind := kind_of_stat hst
  refine ⟨hst.trans h.1, ?_, ?_⟩
  · intro hk
    rw [hkind] at hk
    obtain ⟨a, b⟩ := h.2.1 hk
    rw [updObs_est c s x hp hk]
    exact ⟨estSh_compute c.I s a, b⟩
  · intro hk
    rw [hkind] at hk
    rw [parts_of_stat hst]
    exact h.2.2 hk

/-! ## static equivalence of worlds; a dispatch request preserves it -/

structure SRel (c : Cfg) (w w' : FWorld) : Prop where
  cfg : w.cfg = c
  cfg' : w'.cfg = c
  subs : w.subs = w'.subs
  len : w.heap.length = w'.heap.length
  full : w'.subs = List.range w'.heap.length
  ent : ∀ k o o', w.heap[k]? = some o → w'.heap[k]? = some o' → SEq c k o o'

theorem srel_dispatch {c : Cfg} {w w' : FWorld} (h : SRel c w w') (j p : Nat) (m : Option Int) :
    SRel c (w.dispatch j p m).1 w' := by
  unfold FWorld.dispatch
  cases hdr : dispatchReq w.cfg.I w.s j p m with
  | error e => exact h
  | ok s' =>
    simp only
    cases (s'.sched.flatten.find? fun x => x.job == j && x.pos == p) with
    | none => exact ⟨h.cfg, h.cfg', h.subs, h.len, h.full, h.ent⟩
    | some x =>
      simp only
      have hnd : w.subs.Nodup := by rw [h.subs, h.full]; exact List.nodup_range
      obtain ⟨f1, f2, f3, f4, f5, f6⟩ := fold_callUpdate_at x w.subs { w with s := s' } hnd
      refine ⟨f3.trans h.cfg, h.cfg', f1.trans h.subs, f4.trans h.len, h.full, ?_⟩
      intro k o o' ho ho'
      by_cases hk : k ∈ w.subs
      · have hlt : k < w.heap.length := by rw [h.len]; exact lt_of_get ho'
        obtain ⟨hp, hhp⟩ := f6 k hk _ (List.getElem?_eq_getElem hlt)
        rw [hhp] at ho
        cases ho
        have hc : w.cfg = c := h.cfg
        subst hc
        exact seq_updObs _ _ _ (h.ent k _ o' (List.getElem?_eq_getElem hlt) ho')
      · rw [f5 k hk] at ho
        exact h.ent k o o' ho ho'

/-! ## two worlds reset in lock step -/

/-- both worlds are in the initial dispatcher state, have the same frame, statically equivalent entries, and EQUAL
entries at the indices in `D` -/
structure LRel (c : Cfg) (D : Nat → Prop) (w w' : FWorld) : Prop where
  cfg : w.cfg = c
  cfg' : w'.cfg = c
  s : w.s = init c.I
  s' : w'.s = init c.I
  ok : SubsOK w
  subs : w.subs = w'.subs
  len : w.heap.length = w'.heap.length
  ent : ∀ k o o', w.heap[k]? = some o → w'.heap[k]? = some o' → SEq c k o o'
  eq : ∀ k, D k → w.heap[k]? = w'.heap[k]?

theorem LRel.weaken {c : Cfg} {D D' : Nat → Prop} {w w' : FWorld} (h : LRel c D w w') (hD : ∀ k, D' k → D k) :
    LRel c D' w w' :=
  ⟨h.cfg, h.cfg', h.s, h.s', h.ok, h.subs, h.len, h.ent, fun k hk => h.eq k (hD k hk)⟩

theorem LRel.get' {c : Cfg} {D : Nat → Prop} {w w' : FWorld} (h : LRel c D w w') {k : Nat} {o : FObs}
    (ho : w.heap[k]? = some o) : ∃ o', w'.heap[k]? = some o' ∧ SEq c k o o' := by
  have hlt : k < w'.heap.length := by rw [← h.len]; exact lt_of_get ho
  exact ⟨_, List.getElem?_eq_getElem hlt, h.ent k o _ ho (List.getElem?_eq_getElem hlt)⟩

theorem lrel_push {c : Cfg} {D : Nat → Prop} {w w' : FWorld} (h : LRel c D w w') (x : FObs)
    (hx : SEq c w.heap.length x x) :
    LRel c D (w.push x).1 (w'.push x).1 ∧ (w.push x).2 = (w'.push x).2 := by
  refine ⟨⟨h.cfg, h.cfg', h.s, h.s', subsOK_push h.ok x, ?_, ?_, ?_, ?_⟩, h.len⟩
  · simp only [FWorld.push, h.subs, h.len]
  · simp only [FWorld.push, List.length_append, h.len]
  · intro k o o' ho ho'
    by_cases hlt : k < w.heap.length
    · rw [get_push_lt w x hlt] at ho
      rw [get_push_lt w' x (h.len ▸ hlt)] at ho'
      exact h.ent k o o' ho ho'
    · have hk := lt_of_get ho
      simp only [FWorld.push, List.length_append, List.length_singleton] at hk
      have hkk : k = w.heap.length := by omega
      subst hkk
      rw [get_push_new] at ho
      rw [h.len, get_push_new] at ho'
      cases ho; cases ho'
      exact hx
  · intro k hk
    by_cases hlt : k < w.heap.length
    · rw [get_push_lt w x hlt, get_push_lt w' x (h.len ▸ hlt)]
      exact h.eq k hk
    · simp only [FWorld.push]
      rw [List.getElem?_append_right (by omega), List.getElem?_append_right (by rw [← h.len]; omega), h.len]

theorem lrel_set {c : Cfg} {D : Nat → Prop} {w w' : FWorld} (h : LRel c D w w') (id : Nat) (x x' : FObs)
    (hx : SEq c id x x') : LRel c (fun k => D k ∧ k ≠ id) (w.setObs id x) (w'.setObs id x') := by
  refine ⟨h.cfg, h.cfg', h.s, h.s', subsOK_setObs h.ok id x, h.subs, ?_, ?_, ?_⟩
  · simp only [FWorld.setObs, List.length_set, h.len]
  · intro k o o' ho ho'
    by_cases hk : id = k
    · subst hk
      have h1 := lt_of_get ho
      have h2 := lt_of_get ho'
      simp only [FWorld.setObs, List.length_set] at h1 h2
      rw [get_setObs_self h1] at ho
      rw [get_setObs_self h2] at ho'
      cases ho; cases ho'
      exact hx
    · rw [get_setObs_ne w hk] at ho
      rw [get_setObs_ne w' hk] at ho'
      exact h.ent k o o' ho ho'
  · intro k hk
    rw [get_setObs_ne w (fun e => hk.2 e.symm), get_setObs_ne w' (fun e => hk.2 e.symm)]
    exact h.eq k hk.1

theorem lrel_set_eq {c : Cfg} {D : Nat → Prop} {w w' : FWorld} (h : LRel c D w w') (id : Nat) (x : FObs)
    (hx : SEq c id x x) : LRel c (fun k => D k ∨ k = id) (w.setObs id x) (w'.setObs id x) := by
  have h1 := lrel_set h id x x hx
  refine ⟨h1.cfg, h1.cfg', h1.s, h1.s', h1.ok, h1.subs, h1.len, h1.ent, ?_⟩
  intro k hk
  by_cases hid : k = id
  · subst hid
    by_cases hlt : k < w.heap.length
    · rw [get_setObs_self hlt, get_setObs_self (h.len ▸ hlt)]
    · simp only [FWorld.setObs]
      rw [List.getElem?_eq_none (by simp; omega), List.getElem?_eq_none (by simp; rw [← h.len]; omega)]
  · rcases hk with hk | hk
    · exact h1.eq k ⟨hk, hid⟩
    · exact absurd hk hid

/-- lookups only read kinds and (of non-composite observers) feature types -/
theorem lrel_findObs {c : Cfg} {D : Nat → Prop} {w w' : FWorld} (h : LRel c D w w') {kind : FKind}
    (hk : kind ≠ .composite) (need : List FT) : w.findObs kind need = w'.findObs kind need := by
  rw [FWReset.findObs_eq, FWReset.findObs_eq, ← h.subs]
  apply FWReset.find?_congr'
  intro id hid
  have hlt := h.ok.valid id hid
  obtain ⟨o', ho', hs⟩ := h.get' (List.getElem?_eq_getElem hlt)
  simp only [FWReset.findP, List.getElem?_eq_getElem hlt, ho']
  by_cases hkk : w.heap[id].kind = kind
  · rw [← hs.kind, fts_of_stat hs.1 (hkk ▸ hk)]
  · have h1 : (w.heap[id].kind == kind) = false := by simpa using hkk
    have h2 : (o'.kind == kind) = false := by rw [← hs.kind]; exact h1
    simp [h1, h2]

/-! ## one world: lookups that succeeded keep succeeding -/

abbrev M (w v : FWorld) : Prop := FWReset.Mod (fun _ _ => True) w v

theorem m_set (w : FWorld) (id : Nat) (x : FObs)
    (h : ∀ o0, w.heap[id]? = some o0 → x.kind = o0.kind ∧ x.fts = o0.fts) : M w (w.setObs id x) :=
  FWReset.mod_setObs _ w id x (fun o0 h0 => ⟨(h o0 h0).1, fun _ => (h o0 h0).2, trivial⟩)

theorem m_push (w : FWorld) (x : FObs) : M w (w.push x).1 := FWReset.mod_push _ w x trivial

theorem m_getUnscheduled (w : FWorld) :
    M w w.getUnscheduled.1 ∧ ∃ u, w.getUnscheduled.1.heap[w.getUnscheduled.2]? = some u ∧ u.kind = .unscheduled := by
  unfold FWorld.getUnscheduled
  cases hf : w.findObs .unscheduled [] with
  | some id =>
    obtain ⟨o, ho, hk⟩ := findObs_kind hf
    exact ⟨FWReset.Mod.refl _ w, o, ho, hk⟩
  | none => exact ⟨m_push w _, _, get_push_new w _, rfl⟩

theorem m_old {w v : FWorld} (m : M w v) {k : Nat} {o : FObs} (ho : w.heap[k]? = some o) :
    ∃ o', v.heap[k]? = some o' ∧ o'.kind = o.kind ∧ (o.kind.single = true → o'.fts = o.fts) := by
  obtain ⟨o', a, b, d, _⟩ := m.old k o ho
  exact ⟨o', a, b, d⟩

theorem m_resetRemaining (w : FWorld) {id : Nat} {o : FObs} (ho : w.heap[id]? = some o) :
    M w (w.resetRemaining id) := by
  unfold FWorld.resetRemaining
  simp only
  obtain ⟨m1, u, hu, hku⟩ := m_getUnscheduled w
  generalize w.getUnscheduled = r1 at m1 hu
  obtain ⟨w1, uid⟩ := r1
  simp only at m1 hu ⊢
  rw [getD_of_some hu]
  have m2 : M w1 (w1.setObs uid { u with deques := fullDequesF w1.cfg.I }) :=
    m_set _ _ _ (fun o0 h0 => by rw [hu] at h0; cases h0; exact ⟨rfl, rfl⟩)
  generalize w1.setObs uid { u with deques := fullDequesF w1.cfg.I } = w2 at m2
  obtain ⟨o2, ho2, hk2, hf2⟩ := m_old (m1.trans m2) ho
  rw [getD_of_some ho2]
  refine m1.trans (m2.trans (m_set _ _ _ ?_))
  intro o0 h0
  rw [ho2] at h0; cases h0
  have := nc_remainingInit w2.cfg (w2.heap.getD uid default).deques (FObs.zeroed w2.cfg.I o2)
  exact ⟨kind_of_nc this, fts_of_nc this⟩

theorem m_newRemaining {w : FWorld} (hok : SubsOK w) (need : List FT)
    (hnone : w.findObs .remainingOps need = none) :
    (w.newRemaining need).2 = w.heap.length ∧ M w (w.newRemaining need).1 ∧
    (w.newRemaining need).1.findObs .remainingOps need = some w.heap.length := by
  unfold FWorld.newRemaining
  simp only
  have m1 := m_push w (({ kind := .remainingOps, fts := need } : FObs).zeroed w.cfg.I)
  have g1 := get_push_new w (({ kind := .remainingOps, fts := need } : FObs).zeroed w.cfg.I)
  have hs1 : (w.push (({ kind := .remainingOps, fts := need } : FObs).zeroed w.cfg.I)).1.subs = w.subs ++ [w.heap.length] := rfl
  have hid : (w.push (({ kind := .remainingOps, fts := need } : FObs).zeroed w.cfg.I)).2 = w.heap.length := rfl
  generalize (w.push (({ kind := .remainingOps, fts := need } : FObs).zeroed w.cfg.I)) = r1 at m1 g1 hs1 hid
  obtain ⟨w1, id⟩ := r1
  simp only at m1 g1 hs1 hid ⊢
  subst hid
  obtain ⟨m2, _⟩ := m_getUnscheduled w1
  obtain ⟨t2, ht2⟩ := m2.good.pre
  generalize w1.getUnscheduled = r2 at m2 ht2
  obtain ⟨w2, uid⟩ := r2
  simp only at m2 ht2 ⊢
  obtain ⟨o2, ho2, hk2, hf2⟩ := m_old m2 g1
  have hk2' : o2.kind = .remainingOps := hk2
  have hf2' : o2.fts = need := hf2 rfl
  rw [getD_of_some ho2]
  have hnc := nc_remainingInit w2.cfg (w2.heap.getD uid default).deques o2
  have m3 : M w2 (w2.setObs w.heap.length (remainingInit w2.cfg (w2.heap.getD uid default).deques o2)) :=
    m_set _ _ _ (fun o0 h0 => by rw [ho2] at h0; cases h0; exact ⟨kind_of_nc hnc, fts_of_nc hnc⟩)
  have mall := m1.trans (m2.trans m3)
  refine ⟨trivial, mall, ?_⟩
  refine FWReset.findObs_new mall hok rfl hnone t2 ?_ _ (get_setObs_self (lt_of_get ho2) _)
    ((kind_of_nc hnc).trans hk2') ?_
  · show w2.subs = _
    rw [ht2, hs1]; simp
  · intro ft hft
    rw [fts_of_nc hnc, hf2']; exact hft

theorem m_getRemaining {w : FWorld} (hok : SubsOK w) (need : List FT) :
    M w (w.getRemaining need).1 ∧ (w.getRemaining need).1.findObs .remainingOps need = some (w.getRemaining need).2 := by
  unfold FWorld.getRemaining
  cases hf : w.findObs .remainingOps need with
  | some id => exact ⟨FWReset.Mod.refl _ w, hf⟩
  | none =>
    simp only
    obtain ⟨h1, h2, h3⟩ := m_newRemaining hok need hf
    rw [h1]
    exact ⟨h2, h3⟩

/-! ## lock step: the helpers -/

/-- the kinds whose only dynamic field are the columns -/
def plainK : FKind → Bool
  | .isReady | .duration | .isScheduled | .positionInJob | .remainingOps => true
  | _ => false

theorem stat_eq_nc {o : FObs} (hk : plainK o.kind = true) : stat o = nc o := by
  cases hkk : o.kind <;> rw [hkk] at hk <;> first | exact absurd hk (by decide) | (unfold stat; simp only [nc, hkk])

theorem nc_of_stat {o o' : FObs} (h : stat o = stat o') (hk : plainK o.kind = true) : nc o = nc o' := by
  rw [← stat_eq_nc hk, ← stat_eq_nc (kind_of_stat h ▸ hk), h]

theorem getUnscheduled_lock {c : Cfg} {D : Nat → Prop} {w w' : FWorld} (h : LRel c D w w') :
    LRel c D w.getUnscheduled.1 w'.getUnscheduled.1 ∧ w.getUnscheduled.2 = w'.getUnscheduled.2 := by
  unfold FWorld.getUnscheduled
  rw [← lrel_findObs h (by decide) []]
  cases hf : w.findObs .unscheduled [] with
  | some id => exact ⟨h, rfl⟩
  | none =>
    simp only
    rw [h.s, h.s', h.cfg, h.cfg']
    exact lrel_push h _ (seq_self_plain (by simp) (by simp))

theorem stat_unscheduled {o : FObs} (hk : o.kind = .unscheduled) : stat o = { o with deques := [] } := by
  unfold stat; simp only [hk]
theorem stat_history {o : FObs} (hk : o.kind = .history) : stat o = { o with hist := [] } := by
  unfold stat; simp only [hk]
theorem stat_makespan {o : FObs} (hk : o.kind = .makespanReward) : stat o = { o with rewards := [], curMakespan := 0 } := by
  unfold stat; simp only [hk]
theorem stat_idle {o : FObs} (hk : o.kind = .idleReward) : stat o = { o with rewards := [] } := by
  unfold stat; simp only [hk]
theorem stat_residual {o : FObs} (hk : o.kind = .residual) : stat o = { o with graph := {} } := by
  unfold stat; simp only [hk]
theorem stat_composite {o : FObs} (hk : o.kind = .composite) : stat o = { o with cols := [], fts := [] } := by
  unfold stat; simp only [hk]
theorem stat_est {o : FObs} (hk : o.kind = .earliestStart) : stat o = { o with cols := [], est := [] } := by
  unfold stat; simp only [hk]

theorem unsched_full_congr {u u' : FObs} (I : Instance) (h : stat u = stat u') (hk : u.kind = .unscheduled) :
    ({ u with deques := fullDequesF I } : FObs) = { u' with deques := fullDequesF I } := by
  have hk' : u'.kind = .unscheduled := (kind_of_stat h).symm.trans hk
  rw [stat_unscheduled hk, stat_unscheduled hk'] at h
  have := congrArg (fun x : FObs => ({ x with deques := fullDequesF I } : FObs)) h
  exact this

theorem resetRemaining_lock {c : Cfg} {D : Nat → Prop} {w w' : FWorld} (h : LRel c D w w') {id : Nat} {o : FObs}
    (ho : w.heap[id]? = some o) (hk : o.kind = .remainingOps) :
    LRel c (fun k => D k ∨ k = id) (w.resetRemaining id) (w'.resetRemaining id) := by
  unfold FWorld.resetRemaining
  simp only
  obtain ⟨l1, e1⟩ := getUnscheduled_lock h
  obtain ⟨m1, u, hu, hku⟩ := m_getUnscheduled w
  generalize w.getUnscheduled = r1 at l1 e1 m1 hu
  generalize w'.getUnscheduled = r1' at l1 e1
  obtain ⟨w1, uid⟩ := r1
  obtain ⟨w1', uid'⟩ := r1'
  simp only at l1 e1 m1 hu ⊢
  subst e1
  obtain ⟨u', hu', su⟩ := l1.get' hu
  rw [getD_of_some hu, getD_of_some hu', l1.cfg, l1.cfg', ← unsched_full_congr c.I su.1 hku]
  have l2 := lrel_set_eq l1 uid { u with deques := fullDequesF c.I }
    (seq_self_plain (by show u.kind ≠ _; rw [hku]; simp) (by show u.kind ≠ _; rw [hku]; simp))
  have g2 : (w1.setObs uid { u with deques := fullDequesF c.I }).heap[uid]? = some { u with deques := fullDequesF c.I } :=
    get_setObs_self (lt_of_get hu) _
  have g2' : (w1'.setObs uid { u with deques := fullDequesF c.I }).heap[uid]? = some { u with deques := fullDequesF c.I } :=
    get_setObs_self (lt_of_get hu') _
  obtain ⟨o1, ho1, hk1, _⟩ := m_old m1 ho
  have hne : uid ≠ id := by
    intro e; subst e
    rw [hu] at ho1; cases ho1
    rw [hku, hk] at hk1; cases hk1
  have ho2 : (w1.setObs uid { u with deques := fullDequesF c.I }).heap[id]? = some o1 := by
    rw [get_setObs_ne w1 hne]; exact ho1
  generalize w1.setObs uid { u with deques := fullDequesF c.I } = w2 at l2 g2 ho2
  generalize w1'.setObs uid { u with deques := fullDequesF c.I } = w2' at l2 g2'
  obtain ⟨o1', ho1', so1⟩ := l2.get' ho2
  have hk1' : o1.kind = .remainingOps := hk1.trans hk
  have hz : o1.zeroed c.I = o1'.zeroed c.I := zeroed_of_nc c.I (nc_of_stat so1.1 (by rw [hk1']; rfl))
  rw [getD_of_some ho2, getD_of_some ho1', getD_of_some g2, getD_of_some g2', l2.cfg, l2.cfg', ← hz]
  have hkx : (remainingInit c (fullDequesF c.I) (o1.zeroed c.I)).kind = .remainingOps :=
    (kind_of_nc (nc_remainingInit c _ _)).trans hk1'
  refine (lrel_set_eq l2 id _ (seq_self_plain (by rw [hkx]; simp) (by rw [hkx]; simp))).weaken ?_
  intro k hk
  rcases hk with hk | hk
  · exact Or.inl (Or.inl hk)
  · exact Or.inr hk

theorem getUnscheduled_keep (w : FWorld) {k : Nat} {o : FObs} (h : w.heap[k]? = some o) :
    w.getUnscheduled.1.heap[k]? = some o := by
  unfold FWorld.getUnscheduled
  cases w.findObs .unscheduled [] with
  | some id => exact h
  | none => simp only; rw [get_push_lt w _ (lt_of_get h)]; exact h

theorem newRemaining_lock {c : Cfg} {D : Nat → Prop} {w w' : FWorld} (h : LRel c D w w') (need : List FT) :
    LRel c (fun k => D k ∧ k ≠ w.heap.length) (w.newRemaining need).1 (w'.newRemaining need).1 ∧
    (w.newRemaining need).2 = w.heap.length ∧ (w'.newRemaining need).2 = w.heap.length := by
  unfold FWorld.newRemaining
  simp only
  rw [h.cfg, h.cfg']
  generalize hb : (({ kind := .remainingOps, fts := need } : FObs).zeroed c.I) = b
  have hbk : b.kind = .remainingOps := by rw [← hb]; rfl
  obtain ⟨l1, _⟩ := lrel_push h b (seq_self_plain (by rw [hbk]; simp) (by rw [hbk]; simp))
  have g1 := get_push_new w b
  have g1' := get_push_new w' b
  have i1 : (w.push b).2 = w.heap.length := rfl
  have i1' : (w'.push b).2 = w.heap.length := h.len.symm
  rw [← h.len] at g1'
  generalize w.push b = r1 at l1 g1 i1
  generalize w'.push b = r1' at l1 g1' i1'
  obtain ⟨w1, id⟩ := r1
  obtain ⟨w1', id'⟩ := r1'
  simp only at l1 g1 g1' i1 i1' ⊢
  subst i1 i1'
  obtain ⟨l2, e2⟩ := getUnscheduled_lock l1
  have g2 := getUnscheduled_keep w1 g1
  have g2' := getUnscheduled_keep w1' g1'
  generalize w1.getUnscheduled = r2 at l2 e2 g2
  generalize w1'.getUnscheduled = r2' at l2 e2 g2'
  obtain ⟨w2, uid⟩ := r2
  obtain ⟨w2', uid'⟩ := r2'
  simp only at l2 e2 g2 g2' ⊢
  subst e2
  rw [getD_of_some g2, getD_of_some g2', l2.cfg, l2.cfg']
  refine ⟨lrel_set l2 _ _ _ ⟨?_, ?_, ?_⟩, trivial, trivial⟩
  · have n1 := nc_remainingInit c (w2.heap.getD uid default).deques b
    have n2 := nc_remainingInit c (w2'.heap.getD uid default).deques b
    exact stat_of_nc (by rw [kind_of_nc n1, hbk]; rfl) (n1.trans n2.symm)
  · intro hk
    rw [kind_of_nc (nc_remainingInit c _ b), hbk] at hk; cases hk
  · intro hk
    rw [kind_of_nc (nc_remainingInit c _ b), hbk] at hk; cases hk

theorem getRemaining_lock {c : Cfg} {D : Nat → Prop} {w w' : FWorld} (h : LRel c D w w') (need : List FT) :
    LRel c (fun k => D k ∧ k ≠ (w.getRemaining need).2) (w.getRemaining need).1 (w'.getRemaining need).1 ∧
    (w.getRemaining need).2 = (w'.getRemaining need).2 := by
  unfold FWorld.getRemaining
  rw [← lrel_findObs h (by decide) need]
  cases hf : w.findObs .remainingOps need with
  | some id => exact ⟨h.weaken (fun _ hk => hk.1), rfl⟩
  | none =>
    simp only
    obtain ⟨a, b, d⟩ := newRemaining_lock h need
    rw [b, d]
    exact ⟨a, rfl⟩

/-! ## `IsCompletedObserver.initialize_features` -/

/-- what `initialize_features` leaves in the observer, given the helper's columns -/
def icFinal (I : Instance) (rj rm : List Int) (x : FObs) : FObs :=
  { (x.zeroed I) with remJob := if (x.zeroed I).has .jobs then rj else (x.zeroed I).remJob,
                      remMach := if (x.zeroed I).has .machines then rm else (x.zeroed I).remMach }

theorem icFinal_stat (I : Instance) (rj rm : List Int) (x : FObs) :
    icFinal I rj rm { x with cols := [], remJob := if x.has .jobs then [] else x.remJob,
                             remMach := if x.has .machines then [] else x.remMach } = icFinal I rj rm x := by
  unfold icFinal FObs.zeroed FObs.has
  simp only
  cases x.fts.contains .jobs <;> cases x.fts.contains .machines <;> rfl

theorem icFinal_congr (I : Instance) (rj rm : List Int) {o o' : FObs} (h : stat o = stat o') (hk : o.kind = .isCompleted) :
    icFinal I rj rm o = icFinal I rj rm o' := by
  have hk' : o'.kind = .isCompleted := (kind_of_stat h).symm.trans hk
  rw [← icFinal_stat I rj rm o, ← icFinal_stat I rj rm o', ← stat_isCompleted hk, ← stat_isCompleted hk', h]

theorem subsOK_right {c : Cfg} {D : Nat → Prop} {w w' : FWorld} (h : LRel c D w w') : SubsOK w' :=
  ⟨h.subs ▸ h.ok.nodup, fun id hid => h.len ▸ h.ok.valid id (h.subs ▸ hid)⟩

/-- `initialize_features` when the helper is found -/
theorem isCompletedInit_found {w : FWorld} {id rid : Nat} {o r : FObs} (ho : w.heap[id]? = some o)
    (hf : (w.setObs id (o.zeroed w.cfg.I)).findObs .remainingOps (o.fts.filter (· != .operations)) = some rid)
    (hr : w.heap[rid]? = some r) (hne : id ≠ rid) :
    w.isCompletedInit id = w.setObs id (icFinal w.cfg.I (r.col .jobs) (r.col .machines) o) := by
  unfold FWorld.isCompletedInit
  simp only
  rw [getD_of_some ho]
  have hg : (w.setObs id (o.zeroed w.cfg.I)).getRemaining ((o.zeroed w.cfg.I).fts.filter (· != .operations)) =
      (w.setObs id (o.zeroed w.cfg.I), rid) := by
    unfold FWorld.getRemaining
    rw [show (o.zeroed w.cfg.I).fts = o.fts from rfl, hf]
  rw [hg]
  simp only
  have hr1 : (w.setObs id (o.zeroed w.cfg.I)).heap[rid]? = some r := by rw [get_setObs_ne w hne]; exact hr
  rw [getD_of_some (get_setObs_self (lt_of_get ho) _), getD_of_some hr1, setObs_setObs]
  rfl

theorem isCompletedInit_lock {c : Cfg} {D : Nat → Prop} {w w' : FWorld} (h : LRel c D w w') {id rid : Nat} {o : FObs}
    (ho : w.heap[id]? = some o) (hk : o.kind = .isCompleted)
    (hf : w.findObs .remainingOps (o.fts.filter (· != .operations)) = some rid) (hD : D rid) :
    LRel c (fun k => D k ∨ k = id) (w.isCompletedInit id) (w'.isCompletedInit id) := by
  obtain ⟨o', ho', so⟩ := h.get' ho
  have hk' : o'.kind = .isCompleted := so.kind.symm.trans hk
  have hfts : o.fts = o'.fts := fts_of_stat so.1 (by rw [hk]; simp)
  obtain ⟨_, r, hr, hkr, _⟩ := FWReset.findObs_spec hf
  have hne : id ≠ rid := by
    intro e; subst e
    rw [ho] at hr; cases hr
    rw [hk] at hkr; cases hkr
  have hr' : w'.heap[rid]? = some r := by rw [← h.eq rid hD]; exact hr
  have hf' : w'.findObs .remainingOps (o'.fts.filter (· != .operations)) = some rid := by
    rw [← lrel_findObs h (by decide), ← hfts]; exact hf
  have f1 := FWReset.findObs_mod (m_set w id (o.zeroed w.cfg.I)
    (fun o0 h0 => by rw [ho] at h0; cases h0; exact ⟨rfl, rfl⟩)) h.ok rfl hf
  have f1' := FWReset.findObs_mod (m_set w' id (o'.zeroed w'.cfg.I)
    (fun o0 h0 => by rw [ho'] at h0; cases h0; exact ⟨rfl, rfl⟩)) (subsOK_right h) rfl hf'
  rw [isCompletedInit_found ho f1 hr hne, isCompletedInit_found ho' f1' hr' hne, h.cfg, h.cfg',
    ← icFinal_congr c.I _ _ so.1 hk]
  exact lrel_set_eq h id _ (seq_self_plain (by show o.kind ≠ _; rw [hk]; simp) (by show o.kind ≠ _; rw [hk]; simp))

/-! ## `reset()` of the observers that rewrite only themselves -/

/-- what `reset()` leaves in an observer that has no helper (`heap`: what a composite reads) -/
def resetLocal (c : Cfg) (s : State) (heap : List FObs) (o : FObs) : FObs :=
  match o.kind with
  | .isReady => isReadyFeatures c s o
  | .earliestStart => estFeatures c s (({ o with est := estCompute c.I s o.est } : FObs).zeroed c.I)
  | .duration => durationInit c s (o.zeroed c.I)
  | .isScheduled => o.zeroed c.I
  | .positionInJob => positionInit c s (o.zeroed c.I)
  | .composite => { o with cols := compositeCols heap o.parts, fts := (compositeCols heap o.parts).map (·.1) }
  | .unscheduled => { o with deques := fullDequesF c.I }
  | .history => { o with hist := [] }
  | .makespanReward => { o with rewards := [], curMakespan := makespan s }
  | .idleReward => { o with rewards := [] }
  | .residual => { o with graph := o.graph0 }
  | _ => o

theorem resetLocal_isReady (c : Cfg) (s : State) (heap : List FObs) {o : FObs} (hk : o.kind = .isReady) :
    resetLocal c s heap o = isReadyFeatures c s o := by
  unfold resetLocal; simp only [hk]
theorem resetLocal_earliestStart (c : Cfg) (s : State) (heap : List FObs) {o : FObs} (hk : o.kind = .earliestStart) :
    resetLocal c s heap o = estFeatures c s (({ o with est := estCompute c.I s o.est } : FObs).zeroed c.I) := by
  unfold resetLocal; simp only [hk]
theorem resetLocal_duration (c : Cfg) (s : State) (heap : List FObs) {o : FObs} (hk : o.kind = .duration) :
    resetLocal c s heap o = durationInit c s (o.zeroed c.I) := by
  unfold resetLocal; simp only [hk]
theorem resetLocal_isScheduled (c : Cfg) (s : State) (heap : List FObs) {o : FObs} (hk : o.kind = .isScheduled) :
    resetLocal c s heap o = o.zeroed c.I := by
  unfold resetLocal; simp only [hk]
theorem resetLocal_positionInJob (c : Cfg) (s : State) (heap : List FObs) {o : FObs} (hk : o.kind = .positionInJob) :
    resetLocal c s heap o = positionInit c s (o.zeroed c.I) := by
  unfold resetLocal; simp only [hk]
theorem resetLocal_composite (c : Cfg) (s : State) (heap : List FObs) {o : FObs} (hk : o.kind = .composite) :
    resetLocal c s heap o = { o with cols := compositeCols heap o.parts, fts := (compositeCols heap o.parts).map (·.1) } := by
  unfold resetLocal; simp only [hk]
theorem resetLocal_unscheduled (c : Cfg) (s : State) (heap : List FObs) {o : FObs} (hk : o.kind = .unscheduled) :
    resetLocal c s heap o = { o with deques := fullDequesF c.I } := by
  unfold resetLocal; simp only [hk]
theorem resetLocal_history (c : Cfg) (s : State) (heap : List FObs) {o : FObs} (hk : o.kind = .history) :
    resetLocal c s heap o = { o with hist := [] } := by
  unfold resetLocal; simp only [hk]
theorem resetLocal_makespanReward (c : Cfg) (s : State) (heap : List FObs) {o : FObs} (hk : o.kind = .makespanReward) :
    resetLocal c s heap o = { o with rewards := [], curMakespan := makespan s } := by
  unfold resetLocal; simp only [hk]
theorem resetLocal_idleReward (c : Cfg) (s : State) (heap : List FObs) {o : FObs} (hk : o.kind = .idleReward) :
    resetLocal c s heap o = { o with rewards := [] } := by
  unfold resetLocal; simp only [hk]
theorem resetLocal_residual (c : Cfg) (s : State) (heap : List FObs) {o : FObs} (hk : o.kind = .residual) :
    resetLocal c s heap o = { o with graph := o.graph0 } := by
  unfold resetLocal; simp only [hk]

theorem callReset_local (w : FWorld) (k : Nat) (o : FObs) (ho : w.heap[k]? = some o) (h1 : o.kind ≠ .remainingOps)
    (h2 : o.kind ≠ .isCompleted) : w.callReset k = w.setObs k (resetLocal w.cfg w.s w.heap o) := by
  unfold FWorld.callReset resetLocal
  simp only [ho]
  cases hk : o.kind <;> first | rfl | exact absurd hk h1 | exact absurd hk h2

theorem callReset_remaining (w : FWorld) (k : Nat) (o : FObs) (ho : w.heap[k]? = some o) (hk : o.kind = .remainingOps) :
    w.callReset k = w.resetRemaining k := by
  unfold FWorld.callReset
  simp only [ho, hk]

theorem callReset_isCompleted (w : FWorld) (k : Nat) (o : FObs) (ho : w.heap[k]? = some o) (hk : o.kind = .isCompleted) :
    w.callReset k = ((w.getRemaining (o.fts.filter (· != .operations))).1.resetRemaining
      (w.getRemaining (o.fts.filter (· != .operations))).2).isCompletedInit k := by
  unfold FWorld.callReset
  simp only [ho, hk]

theorem resetLocal_kind (c : Cfg) (s : State) (heap : List FObs) (o : FObs) : (resetLocal c s heap o).kind = o.kind := by
  cases hk : o.kind
  case isReady => rw [resetLocal_isReady _ _ _ hk]; exact (kind_of_nc (nc_isReadyFeatures c s o)).trans hk
  case earliestStart => rw [resetLocal_earliestStart _ _ _ hk]; exact (kind_of_nc (nc_estFeatures c s _)).trans hk
  case duration => rw [resetLocal_duration _ _ _ hk]; exact (kind_of_nc (nc_durationInit c s _)).trans hk
  case positionInJob => rw [resetLocal_positionInJob _ _ _ hk]; exact (kind_of_nc (nc_positionInit c s _)).trans hk
  case isScheduled => rw [resetLocal_isScheduled _ _ _ hk]; exact hk
  case composite => rw [resetLocal_composite _ _ _ hk]; exact hk
  case unscheduled => rw [resetLocal_unscheduled _ _ _ hk]; exact hk
  case history => rw [resetLocal_history _ _ _ hk]; exact hk
  case makespanReward => rw [resetLocal_makespanReward _ _ _ hk]; exact hk
  case idleReward => rw [resetLocal_idleReward _ _ _ hk]; exact hk
  case residual => rw [resetLocal_residual _ _ _ hk]; exact hk
  all_goals (unfold resetLocal; simp only [hk])

theorem resetLocal_parts (c : Cfg) (s : State) (heap : List FObs) (o : FObs) : (resetLocal c s heap o).parts = o.parts := by
  cases hk : o.kind
  case isReady => rw [resetLocal_isReady _ _ _ hk]; exact parts_of_nc (nc_isReadyFeatures c s o)
  case earliestStart => rw [resetLocal_earliestStart _ _ _ hk]; exact (parts_of_nc (nc_estFeatures c s _)).trans rfl
  case duration => rw [resetLocal_duration _ _ _ hk]; exact (parts_of_nc (nc_durationInit c s _)).trans rfl
  case positionInJob => rw [resetLocal_positionInJob _ _ _ hk]; exact (parts_of_nc (nc_positionInit c s _)).trans rfl
  case isScheduled => rw [resetLocal_isScheduled _ _ _ hk]; rfl
  case composite => rw [resetLocal_composite _ _ _ hk]
  case unscheduled => rw [resetLocal_unscheduled _ _ _ hk]
  case history => rw [resetLocal_history _ _ _ hk]
  case makespanReward => rw [resetLocal_makespanReward _ _ _ hk]
  case idleReward => rw [resetLocal_idleReward _ _ _ hk]
  case residual => rw [resetLocal_residual _ _ _ hk]
  all_goals (unfold resetLocal; simp only [hk])

theorem resetLocal_est (c : Cfg) (s : State) (heap : List FObs) {o : FObs} (hk : o.kind = .earliestStart) :
    (resetLocal c s heap o).est = estCompute c.I s o.est := by
  rw [resetLocal_earliestStart c s heap hk]
  exact est_of_nc (nc_estFeatures c s (FObs.zeroed c.I { o with est := estCompute c.I s o.est }))

theorem compositeCols_congr {heap heap' : List FObs} {parts : List Nat} (h : ∀ i ∈ parts, heap[i]? = heap'[i]?) :
    compositeCols heap parts = compositeCols heap' parts := by
  have e : (parts.filterMap fun i => heap[i]?) = parts.filterMap fun i => heap'[i]? := by
    induction parts with
    | nil => rfl
    | cons a t ih =>
      simp only [List.filterMap_cons]
      rw [h a (by simp), ih (fun i hi => h i (by simp [hi]))]
  unfold compositeCols
  simp only [e]

theorem resetLocal_congr {c : Cfg} (hv : Valid c.I) {k : Nat} {heap heap' : List FObs} {o o' : FObs} (h : SEq c k o o')
    (h1 : o.kind ≠ .remainingOps) (h2 : o.kind ≠ .isCompleted) (hp : ∀ i, i < k → heap[i]? = heap'[i]?) :
    resetLocal c (init c.I) heap o = resetLocal c (init c.I) heap' o' := by
  have hst := h.1
  cases hk : o.kind <;> have hk' : o'.kind = _ := h.kind.symm.trans hk
  case isReady =>
    rw [resetLocal_isReady _ _ _ hk, resetLocal_isReady _ _ _ hk']
    unfold isReadyFeatures
    rw [zeroed_of_nc c.I (nc_of_stat hst (by rw [hk]; rfl))]
  case earliestStart =>
    rw [resetLocal_earliestStart _ _ _ hk, resetLocal_earliestStart _ _ _ hk']
    obtain ⟨s1, s2⟩ := h.2.1 hk
    rw [estCompute_init c.I hv o.est s1, estCompute_init c.I hv o'.est s2]
    rw [stat_est hk, stat_est hk'] at hst
    have := congrArg (fun x : FObs => estFeatures c (init c.I) (({ x with est := estInitial c.I } : FObs).zeroed c.I)) hst
    exact this
  case duration =>
    rw [resetLocal_duration _ _ _ hk, resetLocal_duration _ _ _ hk']
    rw [zeroed_of_nc c.I (nc_of_stat hst (by rw [hk]; rfl))]
  case isScheduled =>
    rw [resetLocal_isScheduled _ _ _ hk, resetLocal_isScheduled _ _ _ hk']
    rw [zeroed_of_nc c.I (nc_of_stat hst (by rw [hk]; rfl))]
  case positionInJob =>
    rw [resetLocal_positionInJob _ _ _ hk, resetLocal_positionInJob _ _ _ hk']
    rw [zeroed_of_nc c.I (nc_of_stat hst (by rw [hk]; rfl))]
  case remainingOps => exact absurd hk h1
  case isCompleted => exact absurd hk h2
  case composite =>
    rw [resetLocal_composite _ _ _ hk, resetLocal_composite _ _ _ hk']
    have hparts : o.parts = o'.parts := parts_of_stat hst
    have hc : compositeCols heap o.parts = compositeCols heap' o'.parts := by
      rw [← hparts]
      exact compositeCols_congr (fun i hi => hp i (h.2.2 hk i hi))
    rw [hc]
    rw [stat_composite hk, stat_composite hk'] at hst
    generalize compositeCols heap' o'.parts = C
    have := congrArg (fun x : FObs => ({ x with cols := C, fts := C.map (·.1) } : FObs)) hst
    exact this
  case unscheduled =>
    rw [resetLocal_unscheduled _ _ _ hk, resetLocal_unscheduled _ _ _ hk']
    exact unsched_full_congr c.I hst hk
  case history =>
    rw [resetLocal_history _ _ _ hk, resetLocal_history _ _ _ hk']
    rw [stat_history hk, stat_history hk'] at hst
    exact hst
  case makespanReward =>
    rw [resetLocal_makespanReward _ _ _ hk, resetLocal_makespanReward _ _ _ hk']
    rw [stat_makespan hk, stat_makespan hk'] at hst
    have := congrArg (fun x : FObs => ({ x with curMakespan := makespan (init c.I) } : FObs)) hst
    exact this
  case idleReward =>
    rw [resetLocal_idleReward _ _ _ hk, resetLocal_idleReward _ _ _ hk']
    rw [stat_idle hk, stat_idle hk'] at hst
    exact hst
  case residual =>
    rw [resetLocal_residual _ _ _ hk, resetLocal_residual _ _ _ hk']
    rw [stat_residual hk, stat_residual hk'] at hst
    have := congrArg (fun x : FObs => ({ x with graph := x.graph0 } : FObs)) hst
    exact this

/-! ## lock step: one `reset()` callback, the loop, the whole reset -/

theorem callReset_none (w : FWorld) (k : Nat) (h : w.heap[k]? = none) : w.callReset k = w := by
  unfold FWorld.callReset
  simp only [h]

theorem callReset_lock {c : Cfg} {D : Nat → Prop} {w w' : FWorld} (hv : Valid c.I) (h : LRel c D w w') (k : Nat)
    (hD : ∀ i, i < k → D i) : LRel c (fun i => D i ∨ i = k) (w.callReset k) (w'.callReset k) := by
  cases h0 : w.heap[k]? with
  | none =>
    have h0' : w'.heap[k]? = none := by
      rw [List.getElem?_eq_none_iff] at h0 ⊢
      rw [← h.len]; exact h0
    rw [callReset_none w k h0, callReset_none w' k h0']
    refine ⟨h.cfg, h.cfg', h.s, h.s', h.ok, h.subs, h.len, h.ent, ?_⟩
    intro i hi
    rcases hi with hi | hi
    · exact h.eq i hi
    · rw [hi, h0, h0']
  | some o =>
    obtain ⟨o', ho', so⟩ := h.get' h0
    by_cases h1 : o.kind = .remainingOps
    · rw [callReset_remaining w k o h0 h1, callReset_remaining w' k o' ho' (so.kind ▸ h1)]
      exact resetRemaining_lock h h0 h1
    · by_cases h2 : o.kind = .isCompleted
      · have hk' : o'.kind = .isCompleted := so.kind.symm.trans h2
        have hfts : o.fts = o'.fts := fts_of_stat so.1 (by rw [h2]; simp)
        rw [callReset_isCompleted w k o h0 h2, callReset_isCompleted w' k o' ho' hk', ← hfts]
        generalize hneed : o.fts.filter (· != .operations) = need
        obtain ⟨l1, e1⟩ := getRemaining_lock h need
        obtain ⟨m1, f1⟩ := m_getRemaining h.ok need
        generalize w.getRemaining need = r1 at l1 e1 m1 f1
        generalize w'.getRemaining need = r1' at l1 e1
        obtain ⟨w1, rid⟩ := r1
        obtain ⟨w1', rid'⟩ := r1'
        simp only at l1 e1 m1 f1 ⊢
        subst e1
        obtain ⟨_, r, hr, hkr, _⟩ := FWReset.findObs_spec f1
        have l2 := resetRemaining_lock l1 hr hkr
        have m2 := m_resetRemaining w1 (id := rid) hr
        have f2 := FWReset.findObs_mod m2 l1.ok rfl f1
        obtain ⟨o2, ho2, hk2, hf2⟩ := m_old (m1.trans m2) h0
        have hs : o.kind.single = true := by rw [h2]; rfl
        have l3 := isCompletedInit_lock l2 ho2 (hk2.trans h2) (by rw [hf2 hs, hneed]; exact f2) (Or.inr rfl)
        refine l3.weaken ?_
        intro i hi
        rcases hi with hi | hi
        · by_cases hir : i = rid
          · exact Or.inl (Or.inr hir)
          · exact Or.inl (Or.inl ⟨hi, hir⟩)
        · exact Or.inr hi
      · rw [callReset_local w k o h0 h1 h2, callReset_local w' k o' ho' (so.kind ▸ h1) (so.kind ▸ h2), h.cfg, h.cfg',
          h.s, h.s', ← resetLocal_congr hv so h1 h2 (fun i hi => h.eq i (hD i hi))]
        refine lrel_set_eq h k _ (seq_self ?_ ?_)
        · intro hk
          rw [resetLocal_kind] at hk
          rw [resetLocal_est _ _ _ hk]
          exact estSh_compute c.I _ (so.2.1 hk).1
        · intro hk
          rw [resetLocal_kind] at hk
          rw [resetLocal_parts]
          exact so.2.2 hk

theorem fold_lock {c : Cfg} (hv : Valid c.I) (n0 : Nat) : ∀ (n k : Nat) (w w' : FWorld),
    LRel c (fun i => i < k ∨ n0 ≤ i) w w' →
    LRel c (fun i => i < k + n ∨ n0 ≤ i) ((List.range' k n).foldl (fun w id => w.callReset id) w)
      ((List.range' k n).foldl (fun w id => w.callReset id) w')
  | 0, k, w, w', h => by simpa using h
  | n + 1, k, w, w', h => by
    simp only [List.range'_succ, List.foldl_cons]
    have l1 := callReset_lock hv h k (fun i hi => Or.inl hi)
    have l2 := fold_lock hv n0 n (k + 1) _ _ (l1.weaken (fun i hi => by
      rcases hi with hi | hi
      · by_cases hik : i = k
        · exact Or.inr hik
        · exact Or.inl (Or.inl (by omega))
      · exact Or.inl (Or.inr hi)))
    exact l2.weaken (fun i hi => by
      rcases hi with hi | hi
      · exact Or.inl (by omega)
      · exact Or.inr hi)

/-- statically equivalent worlds have the same reset -/
theorem reset_lock {c : Cfg} (hv : Valid c.I) {w w' : FWorld} (h : SRel c w w') : w.reset = w'.reset := by
  have hsubs : w.subs = List.range w'.heap.length := h.subs.trans h.full
  have h0 : LRel c (fun i => i < 0 ∨ w'.heap.length ≤ i) { w with s := JS.init w.cfg.I } { w' with s := JS.init w'.cfg.I } := by
    refine ⟨h.cfg, h.cfg', by rw [h.cfg], by rw [h.cfg'], ⟨?_, ?_⟩, h.subs, h.len, h.ent, ?_⟩
    · show w.subs.Nodup
      rw [hsubs]; exact List.nodup_range
    · intro id hid
      have : id ∈ w.subs := hid
      rw [hsubs, List.mem_range] at this
      show id < w.heap.length
      rw [h.len]; exact this
    · intro i hi
      rcases hi with hi | hi
      · omega
      · show w.heap[i]? = w'.heap[i]?
        rw [List.getElem?_eq_none (by rw [h.len]; exact hi), List.getElem?_eq_none hi]
  have hl := fold_lock hv w'.heap.length w'.heap.length 0 _ _ h0
  have e1 : w.reset = (List.range' 0 w'.heap.length).foldl (fun w id => w.callReset id) { w with s := JS.init w.cfg.I } := by
    unfold FWorld.reset
    rw [← List.range_eq_range', ← hsubs]
  have e2 : w'.reset = (List.range' 0 w'.heap.length).foldl (fun w id => w.callReset id) { w' with s := JS.init w'.cfg.I } := by
    unfold FWorld.reset
    rw [← List.range_eq_range', ← h.full]
  rw [e1, e2]
  generalize (List.range' 0 w'.heap.length).foldl (fun w id => w.callReset id) { w with s := JS.init w.cfg.I } = a at hl
  generalize (List.range' 0 w'.heap.length).foldl (fun w id => w.callReset id) { w' with s := JS.init w'.cfg.I } = b at hl
  refine world_ext (hl.cfg.trans hl.cfg'.symm) (hl.s.trans hl.s'.symm) hl.subs ?_
  apply List.ext_getElem?
  intro i
  apply hl.eq
  omega

/-! ## the freshly constructed world: every `reset()` callback is the identity -/

/-- a `RemainingOperationsObserver` that `reset()` leaves as it is: its helper is there, not under construction, holds
the full deques, and the observer holds what `initialize_features` computes from them -/
def RemFix (c : Cfg) (w : FWorld) (ex : List Nat) (o : FObs) : Prop :=
  ∃ uid u, w.findObs .unscheduled [] = some uid ∧ uid ∉ ex ∧ w.heap[uid]? = some u ∧
    u.deques = fullDequesF c.I ∧ remainingInit c (fullDequesF c.I) (o.zeroed c.I) = o

/-- observer `o` at index `k` is a fixed point of its `reset()` (`ex`: the observers still under construction) -/
def FixO (c : Cfg) (w : FWorld) (ex : List Nat) (k : Nat) (o : FObs) : Prop :=
  match o.kind with
  | .remainingOps => RemFix c w ex o
  | .isCompleted => ∃ rid r, w.findObs .remainingOps (o.fts.filter (· != .operations)) = some rid ∧ rid ∉ ex ∧
      w.heap[rid]? = some r ∧ RemFix c w ex r ∧ icFinal c.I (r.col .jobs) (r.col .machines) o = o
  | .composite => (∀ i ∈ o.parts, i < k ∧ i ∉ ex) ∧ resetLocal c (init c.I) w.heap o = o
  | .earliestStart => EstSh c.I o.est ∧ resetLocal c (init c.I) w.heap o = o
  | _ => resetLocal c (init c.I) w.heap o = o

theorem fixO_remaining {c : Cfg} {w : FWorld} {ex : List Nat} {k : Nat} {o : FObs} (hk : o.kind = .remainingOps) :
    FixO c w ex k o ↔ RemFix c w ex o := by
  unfold FixO; simp only [hk]

theorem fixO_isCompleted {c : Cfg} {w : FWorld} {ex : List Nat} {k : Nat} {o : FObs} (hk : o.kind = .isCompleted) :
    FixO c w ex k o ↔ ∃ rid r, w.findObs .remainingOps (o.fts.filter (· != .operations)) = some rid ∧ rid ∉ ex ∧
      w.heap[rid]? = some r ∧ RemFix c w ex r ∧ icFinal c.I (r.col .jobs) (r.col .machines) o = o := by
  unfold FixO; simp only [hk]

theorem fixO_composite {c : Cfg} {w : FWorld} {ex : List Nat} {k : Nat} {o : FObs} (hk : o.kind = .composite) :
    FixO c w ex k o ↔ (∀ i ∈ o.parts, i < k ∧ i ∉ ex) ∧ resetLocal c (init c.I) w.heap o = o := by
  unfold FixO; simp only [hk]

theorem fixO_est {c : Cfg} {w : FWorld} {ex : List Nat} {k : Nat} {o : FObs} (hk : o.kind = .earliestStart) :
    FixO c w ex k o ↔ EstSh c.I o.est ∧ resetLocal c (init c.I) w.heap o = o := by
  unfold FixO; simp only [hk]

theorem fixO_local {c : Cfg} {w : FWorld} {ex : List Nat} {k : Nat} {o : FObs} (h1 : o.kind ≠ .remainingOps)
    (h2 : o.kind ≠ .isCompleted) (h3 : o.kind ≠ .composite) (h4 : o.kind ≠ .earliestStart) :
    FixO c w ex k o ↔ resetLocal c (init c.I) w.heap o = o := by
  unfold FixO
  cases hk : o.kind <;> simp only <;> first | exact absurd hk h1 | exact absurd hk h2 | exact absurd hk h3 | exact absurd hk h4

theorem resetLocal_heap (c : Cfg) (s : State) (heap heap' : List FObs) {o : FObs} (hk : o.kind ≠ .composite) :
    resetLocal c s heap o = resetLocal c s heap' o := by
  unfold resetLocal
  cases hkk : o.kind <;> first | rfl | exact absurd hkk hk

/-- a lookup that succeeded keeps succeeding when subscribers are appended and entries keep kind and feature types -/
theorem findObs_stable {w v : FWorld} (hpre : ∃ t, v.subs = w.subs ++ t) (hok : SubsOK w)
    (hent : ∀ id ∈ w.subs, ∀ o, w.heap[id]? = some o →
      ∃ o', v.heap[id]? = some o' ∧ o'.kind = o.kind ∧ (o.kind ≠ .composite → o'.fts = o.fts))
    {kind : FKind} (hk : kind ≠ .composite) {need : List FT} {r : Nat} (h : w.findObs kind need = some r) :
    v.findObs kind need = some r := by
  obtain ⟨t, ht⟩ := hpre
  rw [FWReset.findObs_eq] at h ⊢
  have hc : ∀ id ∈ w.subs, FWReset.findP v kind need id = FWReset.findP w kind need id := by
    intro id hid
    have hlt := hok.valid id hid
    obtain ⟨o', g', k', f'⟩ := hent id hid _ (List.getElem?_eq_getElem hlt)
    simp only [FWReset.findP, List.getElem?_eq_getElem hlt, g']
    by_cases hkk : w.heap[id].kind = kind
    · rw [k', f' (hkk ▸ hk)]
    · have h1 : (w.heap[id].kind == kind) = false := by simpa using hkk
      have h2 : (o'.kind == kind) = false := by rw [k']; exact h1
      simp [h1, h2]
  rw [ht, List.find?_append, FWReset.find?_congr' _ _ _ hc, h]
  rfl

theorem remFix_transfer {c : Cfg} {w v : FWorld} {ex ex' : List Nat} {o : FObs} (h : RemFix c w ex o)
    (hfind : ∀ kind need r, kind ≠ .composite → w.findObs kind need = some r → v.findObs kind need = some r)
    (hheap : ∀ i x, i ∉ ex → w.heap[i]? = some x → v.heap[i]? = some x ∧ i ∉ ex') : RemFix c v ex' o := by
  obtain ⟨uid, u, h1, h2, h3, h4, h5⟩ := h
  exact ⟨uid, u, hfind _ _ _ (by decide) h1, (hheap uid u h2 h3).2, (hheap uid u h2 h3).1, h4, h5⟩

theorem fixO_transfer {c : Cfg} {w v : FWorld} {ex ex' : List Nat} {k : Nat} {o : FObs} (h : FixO c w ex k o)
    (hko : w.heap[k]? = some o)
    (hfind : ∀ kind need r, kind ≠ .composite → w.findObs kind need = some r → v.findObs kind need = some r)
    (hheap : ∀ i x, i ∉ ex → w.heap[i]? = some x → v.heap[i]? = some x ∧ i ∉ ex') : FixO c v ex' k o := by
  by_cases h1 : o.kind = .remainingOps
  · rw [fixO_remaining h1] at h ⊢
    exact remFix_transfer h hfind hheap
  by_cases h2 : o.kind = .isCompleted
  · rw [fixO_isCompleted h2] at h ⊢
    obtain ⟨rid, r, a1, a2, a3, a4, a5⟩ := h
    exact ⟨rid, r, hfind _ _ _ (by decide) a1, (hheap rid r a2 a3).2, (hheap rid r a2 a3).1,
      remFix_transfer a4 hfind hheap, a5⟩
  by_cases h3 : o.kind = .composite
  · rw [fixO_composite h3] at h ⊢
    obtain ⟨a1, a2⟩ := h
    have hin : ∀ i ∈ o.parts, ∃ x, w.heap[i]? = some x := by
      intro i hi
      have : i < w.heap.length := Nat.lt_trans (a1 i hi).1 (lt_of_get hko)
      exact ⟨_, List.getElem?_eq_getElem this⟩
    refine ⟨fun i hi => ⟨(a1 i hi).1, ?_⟩, ?_⟩
    · obtain ⟨x, hx⟩ := hin i hi
      exact (hheap i x (a1 i hi).2 hx).2
    · rw [resetLocal_composite _ _ _ h3] at a2 ⊢
      have : compositeCols v.heap o.parts = compositeCols w.heap o.parts := by
        apply compositeCols_congr
        intro i hi
        obtain ⟨x, hx⟩ := hin i hi
        rw [hx, (hheap i x (a1 i hi).2 hx).1]
      rw [this]; exact a2
  by_cases h4 : o.kind = .earliestStart
  · rw [fixO_est h4] at h ⊢
    rw [resetLocal_heap c _ v.heap w.heap h3]; exact h
  · rw [fixO_local h1 h2 h3 h4] at h ⊢
    rw [resetLocal_heap c _ v.heap w.heap h3]; exact h

/-- the constructor-time invariant: initial dispatcher state, every observer subscribed, and every observer that is
not under construction is a fixed point of its `reset()` -/
structure XInv (c : Cfg) (w : FWorld) (ex : List Nat) : Prop where
  cfg : w.cfg = c
  s : w.s = init c.I
  full : w.subs = List.range w.heap.length
  exlt : ∀ x ∈ ex, x < w.heap.length
  fix : ∀ k o, k ∉ ex → w.heap[k]? = some o → FixO c w ex k o

theorem XInv.ok {c : Cfg} {w : FWorld} {ex : List Nat} (h : XInv c w ex) : SubsOK w :=
  ⟨by rw [h.full]; exact List.nodup_range, fun id hid => by rw [h.full] at hid; exact List.mem_range.1 hid⟩

theorem findObs_push {w : FWorld} (hok : SubsOK w) (x : FObs) {kind : FKind} (hk : kind ≠ .composite) {need : List FT}
    {r : Nat} (h : w.findObs kind need = some r) : (w.push x).1.findObs kind need = some r :=
  findObs_stable ⟨[w.heap.length], rfl⟩ hok
    (fun id hid o ho => ⟨o, by rw [get_push_lt w x (lt_of_get ho)]; exact ho, rfl, fun _ => rfl⟩) hk h

theorem findObs_set {w : FWorld} (hok : SubsOK w) (id : Nat) (x : FObs)
    (hkf : ∀ o0, w.heap[id]? = some o0 → x.kind = o0.kind ∧ (o0.kind ≠ .composite → x.fts = o0.fts))
    {kind : FKind} (hk : kind ≠ .composite) {need : List FT}
    {r : Nat} (h : w.findObs kind need = some r) : (w.setObs id x).findObs kind need = some r := by
  refine findObs_stable ⟨[], by simp [FWorld.setObs]⟩ hok ?_ hk h
  intro i hi o ho
  by_cases hid : id = i
  · subst hid
    exact ⟨x, get_setObs_self (lt_of_get ho) x, (hkf o ho).1, (hkf o ho).2⟩
  · exact ⟨o, by rw [get_setObs_ne w hid]; exact ho, rfl, fun _ => rfl⟩

/-- push an observer: either it is a fixed point already, or it is put under construction -/
theorem xinv_push {c : Cfg} {w : FWorld} {ex ex' : List Nat} (h : XInv c w ex) (x : FObs)
    (hsub : ∀ i, i ∈ ex → i ∈ ex') (hex : ∀ i, i ∈ ex' → i ∈ ex ∨ i = w.heap.length)
    (hx : w.heap.length ∉ ex' → FixO c (w.push x).1 ex' w.heap.length x) : XInv c (w.push x).1 ex' := by
  refine ⟨h.cfg, h.s, ?_, ?_, ?_⟩
  · simp only [FWorld.push, h.full, List.length_append, List.length_singleton, List.range_succ]
  · intro i hi
    simp only [FWorld.push, List.length_append, List.length_singleton]
    rcases hex i hi with h1 | h1
    · have := h.exlt i h1; omega
    · omega
  · intro k o hk ho
    by_cases hlt : k < w.heap.length
    · rw [get_push_lt w x hlt] at ho
      refine fixO_transfer (h.fix k o (fun hin => hk (hsub k hin)) ho) ho
        (fun kind need r hkc hf => findObs_push h.ok x hkc hf) ?_
      intro i y hi hy
      refine ⟨by rw [get_push_lt w x (lt_of_get hy)]; exact hy, fun hin => ?_⟩
      rcases hex i hin with h1 | h1
      · exact hi h1
      · have := lt_of_get hy; omega
    · have hk2 := lt_of_get ho
      simp only [FWorld.push, List.length_append, List.length_singleton] at hk2
      have hkk : k = w.heap.length := by omega
      subst hkk
      rw [get_push_new] at ho
      cases ho
      exact hx hk

/-- finish (or continue) the construction of the observer `id` -/
theorem xinv_set {c : Cfg} {w : FWorld} {ex : List Nat} {id : Nat} (h : XInv c w (id :: ex)) (x : FObs)
    (hkf : ∀ o0, w.heap[id]? = some o0 → x.kind = o0.kind ∧ (o0.kind ≠ .composite → x.fts = o0.fts))
    (hx : id ∉ ex → FixO c (w.setObs id x) ex id x) : XInv c (w.setObs id x) ex := by
  refine ⟨h.cfg, h.s, ?_, ?_, ?_⟩
  · simp only [FWorld.setObs, List.length_set]; exact h.full
  · intro i hi
    simp only [FWorld.setObs, List.length_set]
    exact h.exlt i (by simp [hi])
  · intro k o hk ho
    by_cases hid : id = k
    · subst hid
      have hlt := lt_of_get ho
      simp only [FWorld.setObs, List.length_set] at hlt
      rw [get_setObs_self hlt] at ho
      cases ho
      exact hx hk
    · rw [get_setObs_ne w hid] at ho
      refine fixO_transfer (h.fix k o (by simp only [List.mem_cons, not_or]; exact ⟨fun e => hid e.symm, hk⟩) ho) ho
        (fun kind need r hkc hf => findObs_set h.ok id x hkf hkc hf) ?_
      intro i y hi hy
      simp only [List.mem_cons, not_or] at hi
      exact ⟨by rw [get_setObs_ne w (fun e => hi.1 e.symm)]; exact hy, hi.2⟩

theorem XInv.congr {c : Cfg} {w : FWorld} {ex ex' : List Nat} (h : XInv c w ex) (he : ∀ i, i ∈ ex ↔ i ∈ ex') :
    XInv c w ex' := by
  refine ⟨h.cfg, h.s, h.full, fun x hx => h.exlt x ((he x).2 hx), ?_⟩
  intro k o hk ho
  exact fixO_transfer (h.fix k o (fun hin => hk ((he k).1 hin)) ho) ho (fun _ _ _ _ hf => hf)
    (fun i y hi hy => ⟨hy, fun hin => hi ((he i).2 hin)⟩)

theorem findObs_push_new {w : FWorld} (hok : SubsOK w) (x : FObs) {kind : FKind} {need : List FT}
    (h : w.findObs kind need = none) (hk : x.kind = kind) (hf : ∀ ft ∈ need, ft ∈ x.fts) :
    (w.push x).1.findObs kind need = some w.heap.length := by
  rw [FWReset.findObs_eq] at h ⊢
  have hc : ∀ id ∈ w.subs, FWReset.findP (w.push x).1 kind need id = FWReset.findP w kind need id := by
    intro id hid
    simp only [FWReset.findP, get_push_lt w x (hok.valid id hid)]
  have hs : (w.push x).1.subs = w.subs ++ [w.heap.length] := rfl
  rw [hs, List.find?_append, FWReset.find?_congr' _ _ _ hc, h]
  have : FWReset.findP (w.push x).1 kind need w.heap.length = true := by
    simp only [FWReset.findP, get_push_new, hk, beq_self_eq_true, Bool.true_and, List.all_eq_true, List.contains_eq_mem,
      decide_eq_true_eq]
    exact hf
  simp [this]

theorem getUnscheduled_x {c : Cfg} {w : FWorld} {ex : List Nat} (h : XInv c w ex)
    (hex : ∀ x ∈ ex, ∀ o, w.heap[x]? = some o → o.kind ≠ .unscheduled) :
    XInv c w.getUnscheduled.1 ex ∧ (∀ (k : Nat) (o : FObs), w.heap[k]? = some o → w.getUnscheduled.1.heap[k]? = some o) ∧
    ∃ u, w.getUnscheduled.1.findObs .unscheduled [] = some w.getUnscheduled.2 ∧ w.getUnscheduled.2 ∉ ex ∧
      w.getUnscheduled.1.heap[w.getUnscheduled.2]? = some u ∧ u.deques = fullDequesF c.I := by
  refine ⟨?_, fun k o ho => getUnscheduled_keep w ho, ?_⟩
  · unfold FWorld.getUnscheduled
    cases hf : w.findObs .unscheduled [] with
    | some id => exact h
    | none =>
      simp only
      refine xinv_push h _ (fun _ hi => hi) (fun _ hi => Or.inl hi) (fun _ => ?_)
      rw [fixO_local (by simp) (by simp) (by simp) (by simp), resetLocal_unscheduled _ _ _ rfl, h.s, h.cfg,
        FWReset.init_sched_flatten]
      rfl
  · unfold FWorld.getUnscheduled
    cases hf : w.findObs .unscheduled [] with
    | some id =>
      obtain ⟨hm, o, ho, hk, _⟩ := FWReset.findObs_spec hf
      have hn : id ∉ ex := fun hx => hex id hx o ho hk
      have hfx := h.fix id o hn ho
      rw [fixO_local (by rw [hk]; simp) (by rw [hk]; simp) (by rw [hk]; simp) (by rw [hk]; simp),
        resetLocal_unscheduled _ _ _ hk] at hfx
      refine ⟨o, hf, hn, ho, ?_⟩
      have := congrArg FObs.deques hfx
      exact this.symm
    | none =>
      simp only
      refine ⟨_, findObs_push_new h.ok _ hf rfl (fun _ hft => by cases hft), ?_, get_push_new w _, ?_⟩
      · intro hin
        have := h.exlt _ hin
        exact absurd this (Nat.lt_irrefl _)
      · show List.foldl _ _ _ = _
        rw [h.s, h.cfg, FWReset.init_sched_flatten]
        rfl

/-- the common part of `RemainingOperationsObserver(...)` and `newRemaining`: push the zeroed observer, get the helper,
initialise from its deques -/
theorem remFlow_x {c : Cfg} {w : FWorld} {ex : List Nat} (h : XInv c w ex)
    (hex : ∀ x ∈ ex, ∀ o, w.heap[x]? = some o → o.kind ≠ .unscheduled) (b : FObs) (hbk : b.kind = .remainingOps)
    (hbz : b.zeroed c.I = b) :
    (w.push b).1.getUnscheduled.1.heap[w.heap.length]? = some b ∧
    XInv c ((w.push b).1.getUnscheduled.1.setObs w.heap.length
      (remainingInit (w.push b).1.getUnscheduled.1.cfg
        ((w.push b).1.getUnscheduled.1.heap.getD (w.push b).1.getUnscheduled.2 default).deques b)) ex ∧
    (∀ (k : Nat) (o : FObs), w.heap[k]? = some o →
      ((w.push b).1.getUnscheduled.1.setObs w.heap.length
        (remainingInit (w.push b).1.getUnscheduled.1.cfg
          ((w.push b).1.getUnscheduled.1.heap.getD (w.push b).1.getUnscheduled.2 default).deques b)).heap[k]? = some o) ∧
    ∃ X, ((w.push b).1.getUnscheduled.1.setObs w.heap.length
        (remainingInit (w.push b).1.getUnscheduled.1.cfg
          ((w.push b).1.getUnscheduled.1.heap.getD (w.push b).1.getUnscheduled.2 default).deques b)).heap[w.heap.length]? = some X ∧
      nc X = nc b ∧
      RemFix c ((w.push b).1.getUnscheduled.1.setObs w.heap.length
        (remainingInit (w.push b).1.getUnscheduled.1.cfg
          ((w.push b).1.getUnscheduled.1.heap.getD (w.push b).1.getUnscheduled.2 default).deques b)) ex X ∧
      ∃ t, ((w.push b).1.getUnscheduled.1.setObs w.heap.length
        (remainingInit (w.push b).1.getUnscheduled.1.cfg
          ((w.push b).1.getUnscheduled.1.heap.getD (w.push b).1.getUnscheduled.2 default).deques b)).subs =
        w.subs ++ w.heap.length :: t := by
  have hpre : ∃ t, (w.push b).1.getUnscheduled.1.subs = w.subs ++ w.heap.length :: t := by
    obtain ⟨t, ht⟩ := (good_getUnscheduled (w.push b).1).pre
    exact ⟨t, by rw [ht]; simp [FWorld.push]⟩
  have h1 : XInv c (w.push b).1 (w.heap.length :: ex) :=
    xinv_push h b (fun i hi => List.mem_cons_of_mem _ hi) (fun i hi => by
      rcases List.mem_cons.1 hi with h1 | h1
      · exact Or.inr h1
      · exact Or.inl h1) (fun hn => absurd (List.mem_cons_self ..) hn)
  have hex1 : ∀ x ∈ w.heap.length :: ex, ∀ o, (w.push b).1.heap[x]? = some o → o.kind ≠ .unscheduled := by
    intro x hx o ho
    by_cases hlt : x < w.heap.length
    · rw [get_push_lt w b hlt] at ho
      rcases List.mem_cons.1 hx with rfl | hx
      · omega
      · exact hex x hx o ho
    · have h2 := lt_of_get ho
      simp only [FWorld.push, List.length_append, List.length_singleton] at h2
      have : x = w.heap.length := by omega
      subst this
      rw [get_push_new] at ho; cases ho
      rw [hbk]; simp
  obtain ⟨h2, k2, u, f2, n2, hu, hud⟩ := getUnscheduled_x h1 hex1
  have g2 := k2 _ _ (get_push_new w b)
  have kk : ∀ (k : Nat) (o : FObs), w.heap[k]? = some o → (w.push b).1.getUnscheduled.1.heap[k]? = some o := by
    intro k o ho
    apply k2
    rw [get_push_lt w b (lt_of_get ho)]; exact ho
  generalize (w.push b).1.getUnscheduled = r2 at h2 k2 u f2 n2 hu hud g2 kk hpre
  obtain ⟨w2, uid⟩ := r2
  simp only at h2 k2 f2 n2 hu hud g2 kk hpre ⊢
  rw [getD_of_some hu, hud, h2.cfg]
  have hne : w.heap.length ≠ uid := fun e => n2 (by rw [← e]; exact List.mem_cons_self ..)
  have hnc := nc_remainingInit c (fullDequesF c.I) b
  have hkf : ∀ o0, w2.heap[w.heap.length]? = some o0 →
      (remainingInit c (fullDequesF c.I) b).kind = o0.kind ∧
      (o0.kind ≠ .composite → (remainingInit c (fullDequesF c.I) b).fts = o0.fts) := by
    intro o0 h0
    rw [g2] at h0; cases h0
    exact ⟨kind_of_nc hnc, fun _ => fts_of_nc hnc⟩
  have hrf : RemFix c (w2.setObs w.heap.length (remainingInit c (fullDequesF c.I) b)) ex
      (remainingInit c (fullDequesF c.I) b) := by
    refine ⟨uid, u, findObs_set h2.ok _ _ hkf (by decide) f2, fun hin => n2 (List.mem_cons_of_mem _ hin), ?_, hud, ?_⟩
    · rw [get_setObs_ne w2 hne]; exact hu
    · rw [zeroed_of_nc c.I hnc, hbz]
  refine ⟨g2, xinv_set h2 _ hkf (fun _ => ?_), ?_, _, get_setObs_self (lt_of_get g2) _, hnc, hrf, hpre⟩
  · rw [fixO_remaining ((kind_of_nc hnc).trans hbk)]
    exact hrf
  · intro k o ho
    have hlt := lt_of_get ho
    rw [get_setObs_ne w2 (by omega)]
    exact kk k o ho

theorem findObs_new' {w v : FWorld} (hok : SubsOK w) {kind : FKind} {need : List FT}
    (hnone : w.findObs kind need = none) (hpre : ∃ t, v.subs = w.subs ++ w.heap.length :: t)
    (hent : ∀ (k : Nat) (o : FObs), w.heap[k]? = some o → v.heap[k]? = some o) {x : FObs}
    (hx : v.heap[w.heap.length]? = some x) (hk : x.kind = kind) (hf : ∀ ft ∈ need, ft ∈ x.fts) :
    v.findObs kind need = some w.heap.length := by
  obtain ⟨t, ht⟩ := hpre
  rw [FWReset.findObs_eq] at hnone ⊢
  have hc : ∀ id ∈ w.subs, FWReset.findP v kind need id = FWReset.findP w kind need id := by
    intro id hid
    have hlt := hok.valid id hid
    simp only [FWReset.findP, hent id _ (List.getElem?_eq_getElem hlt), List.getElem?_eq_getElem hlt]
  rw [ht, List.find?_append, FWReset.find?_congr' _ _ _ hc, hnone]
  have : FWReset.findP v kind need w.heap.length = true := by
    simp only [FWReset.findP, hx, hk, beq_self_eq_true, Bool.true_and, List.all_eq_true, List.contains_eq_mem,
      decide_eq_true_eq]
    exact hf
  simp [this]

theorem getRemaining_x {c : Cfg} {w : FWorld} {ex : List Nat} (h : XInv c w ex)
    (hex : ∀ x ∈ ex, ∀ o, w.heap[x]? = some o → o.kind ≠ .unscheduled ∧ o.kind ≠ .remainingOps) (need : List FT) :
    XInv c (w.getRemaining need).1 ex ∧
    (∀ (k : Nat) (o : FObs), w.heap[k]? = some o → (w.getRemaining need).1.heap[k]? = some o) ∧
    ∃ ro, (w.getRemaining need).1.findObs .remainingOps need = some (w.getRemaining need).2 ∧
      (w.getRemaining need).2 ∉ ex ∧ (w.getRemaining need).1.heap[(w.getRemaining need).2]? = some ro ∧
      RemFix c (w.getRemaining need).1 ex ro := by
  unfold FWorld.getRemaining
  cases hf : w.findObs .remainingOps need with
  | some id =>
    obtain ⟨hm, o, ho, hk, _⟩ := FWReset.findObs_spec hf
    have hn : id ∉ ex := fun hx => (hex id hx o ho).2 hk
    exact ⟨h, fun _ _ ho => ho, o, hf, hn, ho, (fixO_remaining hk).1 (h.fix id o hn ho)⟩
  | none =>
    simp only
    rw [FCtor.newRemaining_eq]
    simp only
    rw [h.cfg]
    generalize hb : (({ kind := .remainingOps, fts := need } : FObs).zeroed c.I) = b
    have hbk : b.kind = .remainingOps := by rw [← hb]; rfl
    have hbf : b.fts = need := by rw [← hb]; rfl
    have hbz : b.zeroed c.I = b := by rw [← hb]; rfl
    obtain ⟨g2, a1, a2, X, a3, a4, a5, a6⟩ := remFlow_x h (fun x hx o ho => (hex x hx o ho).1) b hbk hbz
    rw [getD_of_some g2]
    refine ⟨a1, a2, X, ?_, fun hin => absurd (h.exlt _ hin) (Nat.lt_irrefl _), a3, a5⟩
    exact findObs_new' h.ok hf a6 a2 a3 ((kind_of_nc a4).trans hbk) (fun ft hft => by rw [fts_of_nc a4, hbf]; exact hft)

theorem icFinal_idem (I : Instance) (rj rm : List Int) (o : FObs) : icFinal I rj rm (icFinal I rj rm o) = icFinal I rj rm o := by
  unfold icFinal FObs.zeroed FObs.has
  simp only
  cases o.fts.contains .jobs <;> cases o.fts.contains .machines <;> rfl

theorem isCompletedInit_x {c : Cfg} {w : FWorld} {ex : List Nat} {id : Nat} {o0 : FObs} (h : XInv c w (id :: ex))
    (hex : ∀ x ∈ ex, ∀ o, w.heap[x]? = some o → o.kind ≠ .unscheduled ∧ o.kind ≠ .remainingOps)
    (h0 : w.heap[id]? = some o0) (hk0 : o0.kind = .isCompleted) :
    XInv c (w.isCompletedInit id) ex ∧
    (∀ (k : Nat) (o : FObs), k ≠ id → w.heap[k]? = some o → (w.isCompletedInit id).heap[k]? = some o) ∧
    ∃ x, (w.isCompletedInit id).heap[id]? = some x ∧ x.kind = .isCompleted ∧ x.fts = o0.fts := by
  rw [FCtor.isCompletedInit_eq, getD_of_some h0, h.cfg]
  have hkf1 : ∀ o1, w.heap[id]? = some o1 → (o0.zeroed c.I).kind = o1.kind ∧
      (o1.kind ≠ .composite → (o0.zeroed c.I).fts = o1.fts) := by
    intro o1 h1; rw [h0] at h1; cases h1; exact ⟨rfl, fun _ => rfl⟩
  have h1 : XInv c (w.setObs id (o0.zeroed c.I)) (id :: ex) :=
    xinv_set (h.congr (ex' := id :: id :: ex) (fun i => by simp)) _ hkf1 (fun hn => absurd (List.mem_cons_self ..) hn)
  have g1 : (w.setObs id (o0.zeroed c.I)).heap[id]? = some (o0.zeroed c.I) := get_setObs_self (lt_of_get h0) _
  have hex1 : ∀ x ∈ id :: ex, ∀ o, (w.setObs id (o0.zeroed c.I)).heap[x]? = some o →
      o.kind ≠ .unscheduled ∧ o.kind ≠ .remainingOps := by
    intro x hx o ho
    by_cases hxi : id = x
    · subst hxi
      rw [g1] at ho; cases ho
      show o0.kind ≠ _ ∧ o0.kind ≠ _
      rw [hk0]; simp
    · rw [get_setObs_ne w hxi] at ho
      rcases List.mem_cons.1 hx with rfl | hx
      · exact absurd rfl hxi
      · exact hex x hx o ho
  obtain ⟨h2, k2, ro, f2, n2, hr, hrf⟩ := getRemaining_x h1 hex1 ((o0.zeroed c.I).fts.filter (· != .operations))
  have g2 := k2 _ _ g1
  have kk : ∀ (k : Nat) (o : FObs), k ≠ id → w.heap[k]? = some o →
      ((w.setObs id (o0.zeroed c.I)).getRemaining ((o0.zeroed c.I).fts.filter (· != .operations))).1.heap[k]? = some o := by
    intro k o hk ho
    apply k2
    rw [get_setObs_ne w (fun e => hk e.symm)]; exact ho
  generalize (w.setObs id (o0.zeroed c.I)).getRemaining ((o0.zeroed c.I).fts.filter (· != .operations)) = r2
    at h2 k2 ro f2 n2 hr hrf g2 kk
  obtain ⟨w2, rid⟩ := r2
  simp only at h2 k2 f2 n2 hr hrf g2 kk ⊢
  rw [getD_of_some g2, getD_of_some hr]
  have hne : id ≠ rid := fun e => n2 (by rw [← e]; exact List.mem_cons_self ..)
  show XInv c (w2.setObs id (icFinal c.I (ro.col .jobs) (ro.col .machines) o0)) ex ∧
    (∀ (k : Nat) (o : FObs), k ≠ id → w.heap[k]? = some o →
      (w2.setObs id (icFinal c.I (ro.col .jobs) (ro.col .machines) o0)).heap[k]? = some o) ∧
    ∃ x, (w2.setObs id (icFinal c.I (ro.col .jobs) (ro.col .machines) o0)).heap[id]? = some x ∧
      x.kind = .isCompleted ∧ x.fts = o0.fts
  generalize hx : icFinal c.I (ro.col .jobs) (ro.col .machines) o0 = x
  have hxk : x.kind = o0.kind := by rw [← hx]; rfl
  have hxf : x.fts = o0.fts := by rw [← hx]; rfl
  have hkf : ∀ o1, w2.heap[id]? = some o1 → x.kind = o1.kind ∧ (o1.kind ≠ .composite → x.fts = o1.fts) := by
    intro o1 h1; rw [g2] at h1; cases h1; exact ⟨hxk, fun _ => hxf⟩
  refine ⟨xinv_set h2 x hkf (fun _ => ?_), ?_, x, get_setObs_self (lt_of_get g2) _, hxk.trans hk0, hxf⟩
  · rw [fixO_isCompleted (hxk.trans hk0)]
    refine ⟨rid, ro, ?_, fun hin => n2 (List.mem_cons_of_mem _ hin), ?_, ?_, ?_⟩
    · rw [hxf]
      exact findObs_set h2.ok id x hkf (by decide) f2
    · rw [get_setObs_ne w2 hne]; exact hr
    · refine remFix_transfer hrf (fun kind need r hkc hf => findObs_set h2.ok id x hkf hkc hf) ?_
      intro i y hi hy
      simp only [List.mem_cons, not_or] at hi
      exact ⟨by rw [get_setObs_ne w2 (fun e => hi.1 e.symm)]; exact hy, hi.2⟩
    · rw [← hx]; exact icFinal_idem _ _ _ _
  · intro k o hk ho
    rw [get_setObs_ne w2 (fun e => hk e.symm)]
    exact kk k o hk ho

/-! ## the constructors -/

theorem push_set (w : FWorld) (b x : FObs) : (w.push b).1.setObs (w.push b).2 x = (w.push x).1 := by
  refine world_ext rfl rfl rfl ?_
  simp only [FWorld.push, FWorld.setObs]
  rw [List.set_append_right _ _ (Nat.le_refl _)]
  simp

theorem isReady_congr_nc (c : Cfg) (s : State) {a b : FObs} (h : nc a = nc b) :
    isReadyFeatures c s a = isReadyFeatures c s b := by
  unfold isReadyFeatures
  rw [zeroed_of_nc c.I h]

theorem fix_isReady (c : Cfg) (s : State) (heap : List FObs) (b : FObs) (hk : b.kind = .isReady) :
    resetLocal c s heap (isReadyFeatures c s b) = isReadyFeatures c s b := by
  rw [resetLocal_isReady _ _ _ ((kind_of_nc (nc_isReadyFeatures c s b)).trans hk)]
  exact isReady_congr_nc c s (nc_isReadyFeatures c s b)

theorem fix_duration (c : Cfg) (s : State) (heap : List FObs) (b : FObs) (hk : b.kind = .duration) :
    resetLocal c s heap (durationInit c s (b.zeroed c.I)) = durationInit c s (b.zeroed c.I) := by
  rw [resetLocal_duration _ _ _ ((kind_of_nc (nc_durationInit c s (b.zeroed c.I))).trans hk),
    zeroed_of_nc c.I (nc_durationInit c s (b.zeroed c.I))]
  rfl

theorem fix_position (c : Cfg) (s : State) (heap : List FObs) (b : FObs) (hk : b.kind = .positionInJob) :
    resetLocal c s heap (positionInit c s (b.zeroed c.I)) = positionInit c s (b.zeroed c.I) := by
  rw [resetLocal_positionInJob _ _ _ ((kind_of_nc (nc_positionInit c s (b.zeroed c.I))).trans hk),
    zeroed_of_nc c.I (nc_positionInit c s (b.zeroed c.I))]
  rfl

theorem fix_isScheduled (c : Cfg) (s : State) (heap : List FObs) (b : FObs) (hk : b.kind = .isScheduled) :
    resetLocal c s heap (b.zeroed c.I) = b.zeroed c.I := by
  rw [resetLocal_isScheduled _ _ _ (show (b.zeroed c.I).kind = _ from hk)]
  rfl

theorem fix_est (c : Cfg) (hv : Valid c.I) (heap : List FObs) (b : FObs) (hk : b.kind = .earliestStart)
    (he : b.est = estInitial c.I) :
    EstSh c.I (estFeatures c (init c.I) (b.zeroed c.I)).est ∧
    resetLocal c (init c.I) heap (estFeatures c (init c.I) (b.zeroed c.I)) = estFeatures c (init c.I) (b.zeroed c.I) := by
  have hnc := nc_estFeatures c (init c.I) (b.zeroed c.I)
  have hest : (estFeatures c (init c.I) (b.zeroed c.I)).est = estInitial c.I := (est_of_nc hnc).trans he
  refine ⟨by rw [hest]; exact estInitial_shape c.I, ?_⟩
  rw [resetLocal_earliestStart _ _ _ ((kind_of_nc hnc).trans hk), hest,
    estCompute_init c.I hv _ (estInitial_shape c.I)]
  have h1 := congrArg (fun y : FObs => (({ y with est := estInitial c.I } : FObs).zeroed c.I)) hnc
  have h2 : (({ (estFeatures c (init c.I) (b.zeroed c.I)) with est := estInitial c.I } : FObs).zeroed c.I) =
      b.zeroed c.I := by
    refine Eq.trans h1 ?_
    show (({ (b.zeroed c.I) with est := estInitial c.I } : FObs).zeroed c.I) = b.zeroed c.I
    rw [← he]
    rfl
  rw [h2]

theorem xinv_push_local {c : Cfg} {w : FWorld} (h : XInv c w []) (x : FObs) (h1 : x.kind ≠ .remainingOps)
    (h2 : x.kind ≠ .isCompleted) (h3 : x.kind ≠ .composite) (h4 : x.kind ≠ .earliestStart)
    (hfix : ∀ heap, resetLocal c (init c.I) heap x = x) : XInv c (w.push x).1 [] :=
  xinv_push h x (fun _ hi => hi) (fun _ hi => Or.inl hi) (fun _ => (fixO_local h1 h2 h3 h4).2 (hfix _))

theorem construct_feature_x {c : Cfg} {w : FWorld} (hv : Valid c.I) (h : XInv c w []) (kind : FKind)
    (hsg : kind.single = true) (fts : Option (List FT)) : XInv c (w.construct kind fts).1 [] := by
  cases hr : resolveFts kind fts with
  | none =>
    have : w.construct kind fts = (w, none) := by
      cases kind <;> simp [FKind.single] at hsg <;> simp [FWorld.construct, hr]
    rw [this]; exact h
  | some l =>
    generalize hb : ({ kind := kind, fts := l, est := if kind == .earliestStart then estInitial w.cfg.I else [] } : FObs) = b
    have hbk : b.kind = kind := by rw [← hb]
    have hbe : b.est = if kind == .earliestStart then estInitial w.cfg.I else [] := by rw [← hb]
    cases kind <;> simp [FKind.single] at hsg
    · -- isReady
      have e : w.construct .isReady fts = ((w.push (b.zeroed w.cfg.I)).1.setObs (w.push (b.zeroed w.cfg.I)).2
          (isReadyFeatures w.cfg w.s (b.zeroed w.cfg.I)), some (w.push (b.zeroed w.cfg.I)).2) := by
        rw [← hb]; unfold FWorld.construct; simp only [hr] <;> rfl
      rw [e]
      simp only
      rw [push_set, h.cfg, h.s]
      have hkx : (isReadyFeatures c (init c.I) (b.zeroed c.I)).kind = .isReady :=
        (kind_of_nc (nc_isReadyFeatures c _ (b.zeroed c.I))).trans hbk
      exact xinv_push_local h _ (by rw [hkx]; simp) (by rw [hkx]; simp) (by rw [hkx]; simp) (by rw [hkx]; simp)
        (fun heap => fix_isReady c _ heap _ hbk)
    · -- earliestStart
      have e : w.construct .earliestStart fts = ((w.push (b.zeroed w.cfg.I)).1.setObs (w.push (b.zeroed w.cfg.I)).2
          (estFeatures w.cfg w.s (b.zeroed w.cfg.I)), some (w.push (b.zeroed w.cfg.I)).2) := by
        rw [← hb]; unfold FWorld.construct; simp only [hr] <;> rfl
      rw [e]
      simp only
      rw [push_set, h.cfg, h.s]
      have hbe' : b.est = estInitial c.I := by rw [← h.cfg]; simpa using hbe
      obtain ⟨f1, f2⟩ := fix_est c hv (w.push (estFeatures c (init c.I) (b.zeroed c.I))).1.heap b hbk hbe'
      refine xinv_push h _ (fun _ hi => hi) (fun _ hi => Or.inl hi) (fun _ => ?_)
      rw [fixO_est ((kind_of_nc (nc_estFeatures c _ (b.zeroed c.I))).trans hbk)]
      exact ⟨f1, f2⟩
    · -- duration
      have e : w.construct .duration fts = ((w.push (b.zeroed w.cfg.I)).1.setObs (w.push (b.zeroed w.cfg.I)).2
          (durationInit w.cfg w.s (b.zeroed w.cfg.I)), some (w.push (b.zeroed w.cfg.I)).2) := by
        rw [← hb]; unfold FWorld.construct; simp only [hr] <;> rfl
      rw [e]
      simp only
      rw [push_set, h.cfg, h.s]
      have hkx : (durationInit c (init c.I) (b.zeroed c.I)).kind = .duration :=
        (kind_of_nc (nc_durationInit c _ (b.zeroed c.I))).trans hbk
      exact xinv_push_local h _ (by rw [hkx]; simp) (by rw [hkx]; simp) (by rw [hkx]; simp) (by rw [hkx]; simp)
        (fun heap => fix_duration c _ heap _ hbk)
    · -- isScheduled
      have e : w.construct .isScheduled fts = ((w.push (b.zeroed w.cfg.I)).1, some (w.push (b.zeroed w.cfg.I)).2) := by
        rw [← hb]; unfold FWorld.construct; simp only [hr] <;> rfl
      rw [e]
      simp only
      rw [h.cfg]
      have hkx : (b.zeroed c.I).kind = .isScheduled := hbk
      exact xinv_push_local h _ (by rw [hkx]; simp) (by rw [hkx]; simp) (by rw [hkx]; simp) (by rw [hkx]; simp)
        (fun heap => fix_isScheduled c _ heap _ hbk)
    · -- positionInJob
      have e : w.construct .positionInJob fts = ((w.push (b.zeroed w.cfg.I)).1.setObs (w.push (b.zeroed w.cfg.I)).2
          (positionInit w.cfg w.s (b.zeroed w.cfg.I)), some (w.push (b.zeroed w.cfg.I)).2) := by
        rw [← hb]; unfold FWorld.construct; simp only [hr] <;> rfl
      rw [e]
      simp only
      rw [push_set, h.cfg, h.s]
      have hkx : (positionInit c (init c.I) (b.zeroed c.I)).kind = .positionInJob :=
        (kind_of_nc (nc_positionInit c _ (b.zeroed c.I))).trans hbk
      exact xinv_push_local h _ (by rw [hkx]; simp) (by rw [hkx]; simp) (by rw [hkx]; simp) (by rw [hkx]; simp)
        (fun heap => fix_position c _ heap _ hbk)
    · -- remainingOps
      have e : w.construct .remainingOps fts =
          ((w.push (b.zeroed w.cfg.I)).1.getUnscheduled.1.setObs (w.push (b.zeroed w.cfg.I)).2
            (remainingInit (w.push (b.zeroed w.cfg.I)).1.getUnscheduled.1.cfg
              ((w.push (b.zeroed w.cfg.I)).1.getUnscheduled.1.heap.getD (w.push (b.zeroed w.cfg.I)).1.getUnscheduled.2 default).deques
              (b.zeroed w.cfg.I)),
           some (w.push (b.zeroed w.cfg.I)).2) := by
        rw [← hb]; unfold FWorld.construct; simp only [hr] <;> rfl
      rw [e]
      simp only
      rw [h.cfg]
      exact (remFlow_x h (fun x hx => by cases hx) (b.zeroed c.I) hbk rfl).2.1
    · -- isCompleted
      have e : w.construct .isCompleted fts =
          ((w.push (b.zeroed w.cfg.I)).1.isCompletedInit (w.push (b.zeroed w.cfg.I)).2, some (w.push (b.zeroed w.cfg.I)).2) := by
        rw [← hb]; unfold FWorld.construct; simp only [hr] <;> rfl
      rw [e]
      simp only
      have h1 : XInv c (w.push (b.zeroed w.cfg.I)).1 [w.heap.length] :=
        xinv_push h _ (fun _ hi => by cases hi) (fun i hi => Or.inr (List.mem_singleton.1 hi))
          (fun hn => absurd (List.mem_cons_self ..) hn)
      exact (isCompletedInit_x h1 (fun x hx => by cases hx) (get_push_new w _) hbk).1

theorem construct_plain_x {c : Cfg} {w : FWorld} (h : XInv c w []) (kind : FKind)
    (hk : kind = .unscheduled ∨ kind = .history ∨ kind = .makespanReward ∨ kind = .idleReward) (fts : Option (List FT)) :
    XInv c (w.construct kind fts).1 [] := by
  rcases hk with rfl | rfl | rfl | rfl
  · simp only [FWorld.construct]
    split
    · exact h
    · refine xinv_push_local h _ (by simp) (by simp) (by simp) (by simp) (fun heap => ?_)
      rw [resetLocal_unscheduled _ _ _ rfl, h.s, h.cfg, FWReset.init_sched_flatten]
      rfl
  · simp only [FWorld.construct]
    split
    · exact h
    · refine xinv_push_local h _ (by simp) (by simp) (by simp) (by simp) (fun heap => ?_)
      rw [resetLocal_history _ _ _ rfl]
  · simp only [FWorld.construct]
    split
    · exact h
    · refine xinv_push_local h _ (by simp) (by simp) (by simp) (by simp) (fun heap => ?_)
      rw [resetLocal_makespanReward _ _ _ rfl, h.s]
  · simp only [FWorld.construct]
    split
    · exact h
    · refine xinv_push_local h _ (by simp) (by simp) (by simp) (by simp) (fun heap => ?_)
      rw [resetLocal_idleReward _ _ _ rfl]

theorem construct_x {c : Cfg} {w : FWorld} (hv : Valid c.I) (h : XInv c w []) (kind : FKind) (fts : Option (List FT)) :
    XInv c (w.construct kind fts).1 [] := by
  cases kind
  case composite => exact h
  case residual => exact h
  case unscheduled => exact construct_plain_x h _ (Or.inl rfl) fts
  case history => exact construct_plain_x h _ (Or.inr (Or.inl rfl)) fts
  case makespanReward => exact construct_plain_x h _ (Or.inr (Or.inr (Or.inl rfl))) fts
  case idleReward => exact construct_plain_x h _ (Or.inr (Or.inr (Or.inr rfl))) fts
  all_goals exact construct_feature_x hv h _ rfl fts

theorem comp_core {c : Cfg} {w : FWorld} (h : XInv c w []) (ps : List Nat) (hps : ∀ i ∈ ps, i < w.heap.length) :
    XInv c ((w.push { kind := .composite, parts := ps }).1.setObs (w.push { kind := .composite, parts := ps }).2
      { ({ kind := .composite, parts := ps } : FObs) with
        cols := compositeCols (w.push { kind := .composite, parts := ps }).1.heap ps,
        fts := (compositeCols (w.push { kind := .composite, parts := ps }).1.heap ps).map (·.1),
        names := compositeNames (w.push { kind := .composite, parts := ps }).1.heap ps }) [] := by
  rw [push_set]
  refine xinv_push h _ (fun _ hi => hi) (fun _ hi => Or.inl hi) (fun _ => ?_)
  rw [fixO_composite rfl]
  refine ⟨fun i hi => ⟨hps i hi, by simp⟩, ?_⟩
  rw [resetLocal_composite _ _ _ rfl]
  have hcc : ∀ x y : FObs, compositeCols (w.push x).1.heap ps = compositeCols (w.push y).1.heap ps := by
    intro x y
    apply compositeCols_congr
    intro i hi
    rw [get_push_lt w x (hps i hi), get_push_lt w y (hps i hi)]
  simp only
  rw [hcc _ ({ kind := .composite, parts := ps } : FObs)]

theorem constructComposite_x {c : Cfg} {w : FWorld} (h : XInv c w []) (parts : Option (List Nat))
    (hp : ∀ l, parts = some l → ∀ i ∈ l, i < w.heap.length) : XInv c (w.constructComposite parts).1 [] := by
  cases parts with
  | some l => exact comp_core h l (hp l rfl)
  | none =>
    exact comp_core h (w.subs.filter fun id => match w.heap[id]? with | some o => o.kind.isFeature | none => false)
      (fun i hi => h.ok.valid i (List.mem_filter.1 hi).1)

theorem getIsCompleted_x {c : Cfg} {w : FWorld} (h : XInv c w []) (need : List FT) :
    XInv c (w.getIsCompleted need).1 [] := by
  unfold FWorld.getIsCompleted
  cases w.findObs .isCompleted need with
  | some id => exact h
  | none =>
    simp only
    generalize hbase : (({ kind := .isCompleted, fts := need } : FObs).zeroed w.cfg.I) = b0
    have hb0k : b0.kind = .isCompleted := by rw [← hbase]; rfl
    have h1 : XInv c (w.push b0).1 [w.heap.length] :=
      xinv_push h _ (fun _ hi => by cases hi) (fun i hi => Or.inr (List.mem_singleton.1 hi))
        (fun hn => absurd (List.mem_cons_self ..) hn)
    exact (isCompletedInit_x h1 (fun x hx => by cases hx) (get_push_new w _) hb0k).1

theorem constructResidual_x {c : Cfg} {w : FWorld} (h : XInv c w []) (g : Graph) (rm rj : Bool) :
    XInv c (w.constructResidual g rm rj).1 [] := by
  unfold FWorld.constructResidual
  by_cases h1 : (w.subs.any fun id => (w.heap[id]?.map (·.kind)) == some FKind.residual) = true
  · rw [if_pos h1]; exact h
  · rw [if_neg h1]
    simp only
    generalize ((if rm then [FT.machines] else []) ++ (if rj then [FT.jobs] else [])) = need
    by_cases h2 : need.isEmpty = true
    · rw [if_pos h2]
      refine xinv_push_local h _ (by simp) (by simp) (by simp) (by simp) (fun heap => ?_)
      rw [resetLocal_residual _ _ _ rfl]
    · rw [if_neg h2]
      refine xinv_push_local (getIsCompleted_x h need) _ (by simp) (by simp) (by simp) (by simp) (fun heap => ?_)
      rw [resetLocal_residual _ _ _ rfl]

end RF

/-- well-formed constructor lists: constructor events only, no feature type listed twice, and an explicit composite only
names observers that already exist -/
def CtorsOK : FWorld → List FEv → Prop
  | _, [] => True
  | w, e :: t => e.isCtor = true ∧ e.NodupFts ∧ (∀ l, e = .composite (some l) → ∀ i ∈ l, i < w.heap.length) ∧ CtorsOK (w.step e) t

namespace RF

theorem resetRemaining_fix {c : Cfg} {w : FWorld} (hc : w.cfg = c) {k : Nat} {o : FObs} (ho : w.heap[k]? = some o)
    (h : RemFix c w [] o) : w.resetRemaining k = w := by
  subst hc
  obtain ⟨uid, u, hf, _, hu, hud, hfix⟩ := h
  unfold FWorld.resetRemaining
  have hg : w.getUnscheduled = (w, uid) := by
    unfold FWorld.getUnscheduled
    rw [hf]
  rw [hg]
  simp only
  rw [getD_of_some hu]
  have e : ({ u with deques := fullDequesF w.cfg.I } : FObs) = u := by rw [← hud]
  rw [e, setObs_self hu, getD_of_some ho, getD_of_some hu, hud, hfix, setObs_self ho]

theorem callReset_fix {c : Cfg} {w : FWorld} (h : XInv c w []) (k : Nat) : w.callReset k = w := by
  cases h0 : w.heap[k]? with
  | none => exact callReset_none w k h0
  | some o =>
    have fx := h.fix k o (by simp) h0
    by_cases h1 : o.kind = .remainingOps
    · rw [callReset_remaining w k o h0 h1]
      exact resetRemaining_fix h.cfg h0 ((fixO_remaining h1).1 fx)
    by_cases h2 : o.kind = .isCompleted
    · rw [callReset_isCompleted w k o h0 h2]
      obtain ⟨rid, r, hf, _, hr, hrf, hfin⟩ := (fixO_isCompleted h2).1 fx
      have hg : w.getRemaining (o.fts.filter (· != .operations)) = (w, rid) := by
        unfold FWorld.getRemaining
        rw [hf]
      rw [hg]
      simp only
      rw [resetRemaining_fix h.cfg hr hrf]
      obtain ⟨_, r', hr', hkr, _⟩ := FWReset.findObs_spec hf
      rw [hr] at hr'; cases hr'
      have hne : k ≠ rid := by
        intro e; subst e
        rw [h0] at hr; cases hr
        rw [h2] at hkr; cases hkr
      have f1 : (w.setObs k (o.zeroed w.cfg.I)).findObs .remainingOps (o.fts.filter (· != .operations)) = some rid :=
        findObs_set h.ok k _ (fun o0 ho0 => by rw [h0] at ho0; cases ho0; exact ⟨rfl, fun _ => rfl⟩) (by decide) hf
      rw [isCompletedInit_found h0 f1 hr hne, h.cfg, hfin, setObs_self h0]
    · rw [callReset_local w k o h0 h1 h2, h.cfg, h.s]
      have hfix : resetLocal c (init c.I) w.heap o = o := by
        by_cases h3 : o.kind = .composite
        · exact ((fixO_composite h3).1 fx).2
        by_cases h4 : o.kind = .earliestStart
        · exact ((fixO_est h4).1 fx).2
        · exact (fixO_local h1 h2 h3 h4).1 fx
      rw [hfix, setObs_self h0]

theorem reset_fix {c : Cfg} {w : FWorld} (h : XInv c w []) : w.reset = w := by
  unfold FWorld.reset
  have e : ({ w with s := JS.init w.cfg.I } : FWorld) = w := by
    refine world_ext rfl ?_ rfl rfl
    show JS.init w.cfg.I = w.s
    rw [h.s, h.cfg]
  rw [e]
  have : ∀ (l : List Nat), l.foldl (fun w id => w.callReset id) w = w := by
    intro l
    induction l with
    | nil => rfl
    | cons a t ih => simp only [List.foldl_cons]; rw [callReset_fix h a]; exact ih
  exact this _

theorem srel_of_xinv {c : Cfg} {w : FWorld} (h : XInv c w []) : SRel c w w := by
  refine ⟨h.cfg, h.cfg, rfl, rfl, h.full, ?_⟩
  intro k o o' ho ho'
  rw [ho] at ho'; cases ho'
  have fx := h.fix k o (by simp) ho
  refine seq_self ?_ ?_
  · intro hk
    exact ((fixO_est hk).1 fx).1
  · intro hk i hi
    exact (((fixO_composite hk).1 fx).1 i hi).1

theorem xinv_init (c : Cfg) : XInv c (FWorld.init c) [] := by
  refine ⟨rfl, rfl, rfl, (fun x hx => nomatch hx), ?_⟩
  intro k o _ ho
  simp [FWorld.init] at ho

theorem xinv_step {c : Cfg} {w : FWorld} (hv : Valid c.I) (h : XInv c w []) (e : FEv) (he : e.isCtor = true)
    (hp : ∀ l, e = .composite (some l) → ∀ i ∈ l, i < w.heap.length) : XInv c (w.step e) [] := by
  cases e with
  | disp j p m => cases he
  | reset => cases he
  | construct k fts => exact construct_x hv h k fts
  | composite parts => exact constructComposite_x h parts (fun l hl => hp l (by rw [hl]))
  | residual b rm rj => exact constructResidual_x h _ rm rj

theorem xinv_ctors {c : Cfg} (hv : Valid c.I) : ∀ (ctors : List FEv) (w : FWorld), XInv c w [] → CtorsOK w ctors →
    XInv c (ctors.foldl FWorld.step w) []
  | [], _, h, _ => h
  | e :: t, w, h, hok => by
    simp only [List.foldl_cons]
    obtain ⟨h1, _, h3, h4⟩ := hok
    exact xinv_ctors hv t _ (xinv_step hv h e h1 h3) h4

end RF

/-- the freshly constructed world satisfies the constructor-time invariant -/
theorem xinv_run (c : Cfg) (hv : Valid c.I) (ctors : List FEv) (hok : CtorsOK (FWorld.init c) ctors) :
    RF.XInv c (FWorld.run c ctors) [] :=
  RF.xinv_ctors hv ctors _ (RF.xinv_init c) hok

/-- a reset of the freshly constructed world changes nothing -/
theorem C12_fresh_fixpoint (c : Cfg) (hv : Valid c.I) (ctors : List FEv) (hok : CtorsOK (FWorld.init c) ctors) :
    (FWorld.run c ctors).reset = FWorld.run c ctors :=
  RF.reset_fix (xinv_run c hv ctors hok)

/-- whatever dispatch requests and resets follow the construction, the world stays statically equivalent to the freshly
constructed one -/
theorem srel_events {c : Cfg} (hv : Valid c.I) {w0 : FWorld} (h0 : RF.XInv c w0 []) : ∀ (evs : List FEv) (w : FWorld),
    RF.SRel c w w0 → (∀ e ∈ evs, e.isCtor = false) → RF.SRel c (evs.foldl FWorld.step w) w0
  | [], _, h, _ => h
  | e :: t, w, h, hev => by
    simp only [List.foldl_cons]
    have he := hev e (List.mem_cons_self ..)
    have hrest : ∀ e' ∈ t, e'.isCtor = false := fun e' he' => hev e' (List.mem_cons_of_mem _ he')
    cases e with
    | disp j p m => exact srel_events hv h0 t _ (RF.srel_dispatch h j p m) hrest
    | reset =>
      have : w.reset = w0 := (RF.reset_lock hv h).trans (RF.reset_fix h0)
      show RF.SRel c (t.foldl FWorld.step w.reset) w0
      rw [this]
      exact srel_events hv h0 t _ (RF.srel_of_xinv h0) hrest
    | construct k fts => simp [FEv.isCtor] at he
    | composite parts => simp [FEv.isCtor] at he
    | residual b rm rj => simp [FEv.isCtor] at he

/-- **C12**: reset at any point of any history = the freshly constructed world (every observer, every field) -/
theorem C12_world (c : Cfg) (hv : Valid c.I) (ctors evs : List FEv) (hok : CtorsOK (FWorld.init c) ctors)
    (hev : ∀ e ∈ evs, e.isCtor = false) :
    (FWorld.run c (ctors ++ evs)).reset = FWorld.run c ctors := by
  have h0 := xinv_run c hv ctors hok
  have hs : RF.SRel c (FWorld.run c (ctors ++ evs)) (FWorld.run c ctors) := by
    unfold FWorld.run
    rw [List.foldl_append]
    exact srel_events hv h0 evs _ (RF.srel_of_xinv h0) hev
  exact (RF.reset_lock hv hs).trans (RF.reset_fix h0)

/-- a reset forgets the history: whatever happened since construction, the reset world is the reset fresh world -/
theorem C12_reset_forgets (c : Cfg) (hv : Valid c.I) (ctors evs : List FEv) (hok : CtorsOK (FWorld.init c) ctors)
    (hev : ∀ e ∈ evs, e.isCtor = false) :
    (FWorld.run c (ctors ++ evs)).reset = (FWorld.run c ctors).reset := by
  rw [C12_world c hv ctors evs hok hev, C12_fresh_fixpoint c hv ctors hok]

/-! non-vacuity: a constructor list with lazily created helpers, explicit and implicit composites and a graph updater
is well formed -/
example : CtorsOK (FWorld.init { I := exampleInstance })
    [.construct .isCompleted none, .construct .earliestStart (some [.jobs, .operations]), .construct .remainingOps none,
     .composite (some [0, 1]), .composite none, .residual .agentTask true true] := by
  simp only [CtorsOK, FEv.isCtor, FEv.NodupFts, true_and, and_true]
  refine ⟨?_, ?_, ?_, ?_, ?_, ?_, ?_⟩
  · intro l hl; cases hl
  · decide
  · intro l hl; cases hl
  · intro l hl; cases hl
  · intro l hl
    cases hl
    decide
  · intro l hl; cases hl
  · intro l hl; cases hl

end JS

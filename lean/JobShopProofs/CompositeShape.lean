import JobShopProofs.FeatureShape
import JobShopModel.Env
/-!
# The shape of the composite observer's matrices depends only on its parts' feature types
-/
namespace JS

/-- feature types in order of first appearance -/
def addKey (acc : List FT) (ft : FT) : List FT := if acc.contains ft then acc else acc ++ [ft]
def orderOf (ftss : List (List FT)) : List FT := ftss.foldl (fun acc fts => fts.foldl addKey acc) []

/-- the shape `(rows, columns)` of every matrix of a composite over single-column observers with these feature types -/
def shapeF (I : Instance) (ftss : List (List FT)) : List (FT × Nat × Nat) :=
  (orderOf ftss).map fun ft => (ft, numEntities I ft, (ftss.filter (·.contains ft)).length)

theorem compositeCols_order (obs : List FObs) :
    obs.foldl (fun (acc : List FT) o => o.cols.foldl (fun acc tc => if acc.contains tc.1 then acc else acc ++ [tc.1]) acc) []
      = orderOf (obs.map fun o => o.cols.map (·.1)) := by
  unfold orderOf
  rw [List.foldl_map]
  congr 1
  funext acc o
  rw [List.foldl_map]
  rfl

theorem addKey_mem (acc : List FT) (ft x : FT) : x ∈ addKey acc ft ↔ x ∈ acc ∨ x = ft := by
  unfold addKey
  split
  · rename_i h
    constructor
    · intro hx; exact Or.inl hx
    · rintro (hx | rfl)
      · exact hx
      · simpa using h
  · simp

theorem foldl_addKey_mem (fts : List FT) : ∀ (acc : List FT) (x : FT), x ∈ fts.foldl addKey acc ↔ x ∈ acc ∨ x ∈ fts := by
  induction fts with
  | nil => intro acc x; simp
  | cons a t ih =>
    intro acc x
    simp only [List.foldl_cons]
    rw [ih, addKey_mem]
    simp only [List.mem_cons]
    constructor
    · rintro ((h | h) | h)
      · exact Or.inl h
      · exact Or.inr (Or.inl h)
      · exact Or.inr (Or.inr h)
    · rintro (h | h | h)
      · exact Or.inl (Or.inl h)
      · exact Or.inl (Or.inr h)
      · exact Or.inr h

theorem orderOf_mem_aux : ∀ (ftss : List (List FT)) (acc : List FT) (x : FT),
    x ∈ ftss.foldl (fun acc fts => fts.foldl addKey acc) acc ↔ x ∈ acc ∨ ∃ fts ∈ ftss, x ∈ fts := by
  intro ftss
  induction ftss with
  | nil => intro acc x; simp
  | cons a t ih =>
    intro acc x
    simp only [List.foldl_cons]
    rw [ih, foldl_addKey_mem]
    simp only [List.mem_cons, exists_eq_or_imp]
    constructor
    · rintro ((h | h) | h)
      · exact Or.inl h
      · exact Or.inr (Or.inl h)
      · exact Or.inr (Or.inr h)
    · rintro (h | h | h)
      · exact Or.inl (Or.inl h)
      · exact Or.inl (Or.inr h)
      · exact Or.inr h

theorem orderOf_mem (ftss : List (List FT)) (x : FT) : x ∈ orderOf ftss ↔ ∃ fts ∈ ftss, x ∈ fts := by
  unfold orderOf
  rw [orderOf_mem_aux]; simp

/-- in a shaped observer the entries with key `ft` contribute exactly one column of the right length, or none -/
theorem shaped_filter_cols {I : Instance} {o : FObs} (h : o.Shaped I) (ft : FT) :
    (ft ∈ o.fts → ∃ c, ((o.cols.filter (·.1 == ft)).flatMap (·.2)) = [c] ∧ c.length = numEntities I ft) ∧
    (ft ∉ o.fts → ((o.cols.filter (·.1 == ft)).flatMap (·.2)) = []) := by
  have hnd : (o.cols.map (·.1)).Nodup := by rw [h.wf.keys]; exact h.wf.nodup
  have hone := h.one
  have hkeys := h.wf.keys
  generalize o.cols = cols at hnd hone hkeys
  rw [← hkeys]
  clear hkeys
  induction cols with
  | nil => simp
  | cons a t ih =>
    obtain ⟨t1, cs1⟩ := a
    simp only [List.map_cons, List.nodup_cons] at hnd
    have iht := ih hnd.2 (fun ft cs hm => hone ft cs (by simp [hm]))
    obtain ⟨c1, rfl, hc1⟩ := hone t1 cs1 (by simp)
    by_cases hk : t1 = ft
    · subst hk
      have hnot : t1 ∉ t.map (·.1) := hnd.1
      have := iht.2 hnot
      constructor
      · intro _
        refine ⟨c1, ?_, hc1⟩
        simp only [List.filter_cons, beq_self_eq_true, ↓reduceIte, List.flatMap_cons, this]
        rfl
      · intro hn; simp at hn
    · have hb : ((t1, [c1]).1 == ft) = false := by simpa using hk
      simp only [List.filter_cons, hb, Bool.false_eq_true, ↓reduceIte, List.map_cons, List.mem_cons]
      constructor
      · rintro (h1 | h1)
        · exact absurd h1.symm hk
        · exact iht.1 h1
      · intro hn
        exact iht.2 (fun h1 => hn (Or.inr h1))

/-- the columns a list of shaped observers contributes for `ft`: one per observer that has `ft` -/
theorem flatMap_cols_shape {I : Instance} (ft : FT) : ∀ (obs : List FObs), (∀ o ∈ obs, o.Shaped I) →
    ((obs.flatMap fun o => (o.cols.filter (·.1 == ft)).flatMap (·.2)).length =
        ((obs.map (·.fts)).filter (·.contains ft)).length) ∧
    ∀ col ∈ (obs.flatMap fun o => (o.cols.filter (·.1 == ft)).flatMap (·.2)), col.length = numEntities I ft
  | [], _ => by simp
  | o :: t, h => by
    have ih := flatMap_cols_shape ft t (fun o ho => h o (by simp [ho]))
    have ho := shaped_filter_cols (h o (by simp)) ft
    simp only [List.flatMap_cons, List.map_cons, List.filter_cons, List.length_append, List.mem_append]
    by_cases hft : ft ∈ o.fts
    · obtain ⟨c, hc, hlen⟩ := ho.1 hft
      have hcont : o.fts.contains ft = true := by simpa using hft
      rw [hc, hcont]
      simp only [↓reduceIte, List.length_cons, List.length_nil]
      refine ⟨by omega, ?_⟩
      rintro col (h1 | h1)
      · simp at h1; subst h1; exact hlen
      · exact ih.2 col h1
    · have hcont : o.fts.contains ft = false := by simpa using hft
      rw [ho.2 hft, hcont]
      simp only [Bool.false_eq_true, ↓reduceIte, List.length_nil]
      refine ⟨by omega, ?_⟩
      rintro col (h1 | h1)
      · cases h1
      · exact ih.2 col h1

/-- **shape of the composite**: over shaped parts, the matrices of `compositeCols` have the shape `shapeF` computes
from the parts' feature types alone, and within a matrix all columns have the same length -/
theorem compositeCols_shape {I : Instance} (heap : List FObs) (parts : List Nat)
    (h : ∀ o ∈ parts.filterMap (fun i => heap[i]?), o.Shaped I) :
    ((compositeCols heap parts).map fun tc => (tc.1, matShape tc.2)) =
        shapeF I ((parts.filterMap fun i => heap[i]?).map (·.fts)) ∧
    ∀ tc ∈ compositeCols heap parts, ∀ col ∈ tc.2, col.length = (tc.2.headD []).length := by
  unfold compositeCols
  simp only
  generalize parts.filterMap (fun i => heap[i]?) = obs at h
  rw [compositeCols_order]
  have hkeys : (obs.map fun o => o.cols.map (·.1)) = obs.map (·.fts) :=
    List.map_congr_left (fun o ho => (h o ho).wf.keys)
  rw [hkeys]
  constructor
  · unfold shapeF
    rw [List.map_map]
    apply List.map_congr_left
    intro ft hft
    simp only [Function.comp_apply, matShape]
    obtain ⟨hlen, hall⟩ := flatMap_cols_shape (I := I) ft obs h
    rw [hlen]
    congr 2
    -- the first column exists and has the right length
    obtain ⟨fts, hfts, hmem⟩ := (orderOf_mem _ ft).1 hft
    have hpos : 0 < ((obs.map (·.fts)).filter (·.contains ft)).length := by
      apply List.length_pos_of_mem (a := fts)
      simp only [List.mem_filter]
      exact ⟨hfts, by simpa using hmem⟩
    rw [← hlen] at hpos
    cases hc : (obs.flatMap fun o => (o.cols.filter (·.1 == ft)).flatMap (·.2)) with
    | nil => rw [hc] at hpos; simp at hpos
    | cons c t => simp only [List.headD_cons]; exact hall c (by rw [hc]; simp)
  · intro tc htc col hcol
    simp only [List.mem_map] at htc
    obtain ⟨ft, _, rfl⟩ := htc
    simp only at hcol ⊢
    obtain ⟨_, hall⟩ := flatMap_cols_shape (I := I) ft obs h
    rw [hall col hcol]
    cases hc : (obs.flatMap fun o => (o.cols.filter (·.1 == ft)).flatMap (·.2)) with
    | nil => rw [hc] at hcol; cases hcol
    | cons c t => simp only [List.headD_cons]; exact (hall c (by rw [hc]; simp)).symm

end JS

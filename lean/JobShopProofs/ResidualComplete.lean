import JobShopProofs.ResidualWorld
import JobShopProofs.Properties.C06
import JobShopProofs.GraphEdges
/-!
# C17, last clause: in a complete state every node of the residual graph is removed

With both removal options on, on instances with at least one job, no empty job and no unused machine: when the schedule is complete
every node of the residual graph is removed (`C17_complete_all_removed`).

* graph level: after `remove_node` no node that is still present is isolated (`RC.noiso_removeNode`); no builder joins two special
  nodes (source, sink, global) by an edge and edges are only ever deleted (`RC.SpecialSep`); every special node of a built graph
  has an edge (`RC.noIsoS_build`).  A special node that is present therefore has a present neighbour that is an operation, machine
  or job node (`RC.all_removed`).
* world level: the invariant `RC.XInv` run alongside `FInv` and `RW.RInv`.
-/
namespace JS

/-- no job without operations -/
def NoEmptyJobG (I : Instance) : Prop := ∀ j, j < I.length → (I.getD j []).length ≠ 0
/-- every machine id below `numMachines` is eligible for some operation -/
def AllMachinesUsed (I : Instance) : Prop := ∀ m, m < numMachines I → machineUsed I m = true

namespace RC

/-! ## special nodes, isolated nodes -/

def isSpecial : NodeKind → Bool
  | .global | .source | .sink => true
  | _ => false

/-- node `k` of `g` is a special node (source, sink, global) -/
def sp (g : Graph) (k : Nat) : Bool := isSpecial (g.nodes.getD k (.operation 0))

/-- node `k` is an end of some edge of `g` -/
def Linked (g : Graph) (k : Nat) : Prop := ∃ a e, RA.EdgeAt g a e ∧ (a = k ∨ e.1 = k)

/-- every special node that is present has an edge -/
def NoIsoS (g : Graph) : Prop := ∀ k, g.present k = true → sp g k = true → Linked g k

/-- no edge joins two special nodes -/
def SpecialSep (g : Graph) : Prop := ∀ a e, e ∈ g.adj.getD a [] → sp g a = true → sp g e.1 = false

theorem linked_of_degree {g : Graph} {k : Nat} (hp : g.present k = true) (hd : g.degree k ≠ 0) : Linked g k := by
  unfold Graph.degree at hd
  by_cases h1 : (g.adj.getD k []).length = 0
  · have h2 : (g.edges.filter fun e => e.2.1 == k).length ≠ 0 := by omega
    obtain ⟨x, hx⟩ := List.exists_mem_of_length_pos (Nat.pos_of_ne_zero h2)
    obtain ⟨hx1, hx2⟩ := List.mem_filter.1 hx
    obtain ⟨a, b, t⟩ := x
    obtain ⟨_, hpa, hmem⟩ := (mem_edges_iff g a b t).1 hx1
    exact ⟨a, (b, t), ⟨hpa, hmem⟩, Or.inr (by simpa using hx2)⟩
  · obtain ⟨e, he⟩ := List.exists_mem_of_length_pos (Nat.pos_of_ne_zero h1)
    exact ⟨k, e, ⟨hp, he⟩, Or.inl rfl⟩

theorem dropNode_present {g : Graph} {v k : Nat} (h : (g.dropNode v).present k = true) :
    g.present k = true ∧ k ≠ v := by
  simp only [Graph.present, Graph.dropNode, List.getD_eq_getElem?_getD, List.getElem?_set, Bool.and_eq_true,
    decide_eq_true_eq, Bool.not_eq_true'] at h ⊢
  obtain ⟨h1, h2⟩ := h
  by_cases hkv : v = k
  · subst hkv
    rw [if_pos rfl] at h2
    split at h2
    · simp at h2
    · simp at h2
  · rw [if_neg hkv] at h2
    exact ⟨⟨of_decide_eq_true h1, h2⟩, fun e => hkv e.symm⟩

theorem foldl_dropNode_present : ∀ (L : List Nat) (g : Graph) (k : Nat),
    (L.foldl (fun g v => g.dropNode v) g).present k = true → g.present k = true ∧ k ∉ L
  | [], _, _, h => ⟨h, by simp⟩
  | v :: t, g, k, h => by
    simp only [List.foldl_cons] at h
    obtain ⟨h1, h2⟩ := foldl_dropNode_present t _ k h
    obtain ⟨h3, h4⟩ := dropNode_present h1
    exact ⟨h3, by simp [h2, h4]⟩

/-- after `remove_node` no node that is still there is isolated -/
theorem noiso_removeNode (g : Graph) (u k : Nat) (h : (g.removeNode u).present k = true) : Linked (g.removeNode u) k := by
  unfold Graph.removeNode at h ⊢
  simp only at h ⊢
  obtain ⟨h1, h2⟩ := foldl_dropNode_present _ _ k h
  have hlt : k < (g.dropNode u).nodes.length := by
    simp only [Graph.present, Bool.and_eq_true, decide_eq_true_eq] at h1; exact h1.1
  have hdeg : (g.dropNode u).degree k ≠ 0 := by
    intro hd
    apply h2
    simp only [List.mem_filter, List.mem_range, Bool.and_eq_true, beq_iff_eq]
    exact ⟨hlt, h1, hd⟩
  obtain ⟨a, e, hE, hk⟩ := linked_of_degree h1 hdeg
  obtain ⟨d1, d2⟩ := RA.edgeAt_degree hE
  refine ⟨a, e, RA.edgeAt_foldl_dropNode _ _ hE ?_ ?_, hk⟩
  · intro hm
    simp only [List.mem_filter, Bool.and_eq_true, beq_iff_eq] at hm
    exact d1 hm.2.2
  · intro hm
    simp only [List.mem_filter, Bool.and_eq_true, beq_iff_eq] at hm
    exact d2 hm.2.2

theorem sp_nodes {g g' : Graph} (h : g'.nodes = g.nodes) (k : Nat) : sp g' k = sp g k := by
  unfold sp; rw [h]

theorem noIsoS_removeIf {g : Graph} (h : NoIsoS g) (nid : Nat) (cond : Bool) : NoIsoS (removeIf g nid cond) := by
  unfold removeIf
  split
  · intro k hk _
    exact noiso_removeNode g nid k hk
  · exact h

/-! ## edges are only deleted -/

theorem dropNode_adj_sub (g : Graph) (v a : Nat) (e : Nat × EType) (h : e ∈ (g.dropNode v).adj.getD a []) :
    e ∈ g.adj.getD a [] := by
  simp only [Graph.dropNode, List.getD_eq_getElem?_getD, List.getElem?_map, List.getElem?_set] at h ⊢
  split at h
  · split at h
    · simp at h
    · simp at h
  · cases hh : g.adj[a]? with
    | none => rw [hh] at h; simp at h
    | some l =>
      rw [hh] at h
      simp only [Option.map_some, Option.getD_some, List.mem_filter] at h ⊢
      exact h.1

theorem foldl_dropNode_adj_sub : ∀ (L : List Nat) (g : Graph) (a : Nat) (e : Nat × EType),
    e ∈ (L.foldl (fun g v => g.dropNode v) g).adj.getD a [] → e ∈ g.adj.getD a []
  | [], _, _, _, h => h
  | v :: t, g, a, e, h => by
    simp only [List.foldl_cons] at h
    exact dropNode_adj_sub g v a e (foldl_dropNode_adj_sub t _ a e h)

theorem removeNode_adj_sub (g : Graph) (u a : Nat) (e : Nat × EType) (h : e ∈ (g.removeNode u).adj.getD a []) :
    e ∈ g.adj.getD a [] := by
  unfold Graph.removeNode at h
  simp only at h
  exact dropNode_adj_sub g u a e (foldl_dropNode_adj_sub _ _ a e h)

theorem specialSep_removeIf {g : Graph} (h : SpecialSep g) (nid : Nat) (cond : Bool) : SpecialSep (removeIf g nid cond) := by
  unfold removeIf
  split
  · intro a e he hs
    rw [sp_nodes (removeNode_nodes g nid)] at hs ⊢
    exact h a e (removeNode_adj_sub g nid a e he) hs
  · exact h

/-- a property of graphs that every conditional removal keeps is kept by an update of the residual graph updater -/
theorem residualUpdate_pres (P : Graph → Prop) (hP : ∀ g nid cond, P g → P (removeIf g nid cond))
    (c : Cfg) (s : State) (heap : List FObs) (o : FObs) (h : P o.graph) : P (residualUpdate c s heap o) := by
  unfold residualUpdate
  simp only
  have hfold : ∀ {α} (f : Graph → α → Nat) (cnd : Graph → α → Bool) (L : List α) (g : Graph), P g →
      P (L.foldl (fun g a => removeIf g (f g a) (cnd g a)) g) := by
    intro α f cnd L
    induction L with
    | nil => intro g hg; exact hg
    | cons a t ih => intro g hg; simp only [List.foldl_cons]; exact ih _ (hP _ _ _ hg)
  have h1 : P (removeCompletedOps c.I o.graph (completedPure c s)) :=
    hfold (fun _ r => opId c.I r) (fun _ _ => true) _ _ h
  have hfl : ∀ (g : Graph) (flags : List Int) (kind : Nat → NodeKind), P g → P (removeFlagged g flags kind) :=
    fun g flags kind hg => hfold (fun g (fm : Int × Nat) => nodeIdOf g (kind fm.2)) (fun _ fm => fm.1 == 1) _ g hg
  have hite : ∀ (cnd : Bool) (a b : Graph), P a → P b → P (if cnd = true then a else b) := by
    intro cnd a b ha hb; split <;> assumption
  apply hite
  · exact hfl _ _ _ (hite _ _ _ (hfl _ _ _ h1) h1)
  · exact hite _ _ _ (hfl _ _ _ h1) h1

theorem noIsoS_residualUpdate (c : Cfg) (s : State) (heap : List FObs) (o : FObs) (h : NoIsoS o.graph) :
    NoIsoS (residualUpdate c s heap o) :=
  residualUpdate_pres NoIsoS (fun _ nid cond hg => noIsoS_removeIf hg nid cond) c s heap o h

theorem specialSep_residualUpdate (c : Cfg) (s : State) (heap : List FObs) (o : FObs) (h : SpecialSep o.graph) :
    SpecialSep (residualUpdate c s heap o) :=
  residualUpdate_pres SpecialSep (fun _ nid cond hg => specialSep_removeIf hg nid cond) c s heap o h

/-! ## flagged nodes are removed -/

theorem removeFlagged_nodes (g : Graph) (flags : List Int) (kind : Nat → NodeKind) :
    (removeFlagged g flags kind).nodes = g.nodes := by
  unfold removeFlagged
  generalize flags.zipIdx = L
  induction L generalizing g with
  | nil => rfl
  | cons a t ih => simp only [List.foldl_cons]; rw [ih, removeIf_nodes]

theorem removeFlagged_mono (g : Graph) (flags : List Int) (kind : Nat → NodeKind) (k : Nat)
    (h : g.removed.getD k true = true) : (removeFlagged g flags kind).removed.getD k true = true := by
  unfold removeFlagged
  exact foldl_removeIf_mono (fun g (fm : Int × Nat) => nodeIdOf g (kind fm.2)) (fun _ fm => fm.1 == 1) _ g _ h

/-- the node of an entity whose flag is 1 is removed (or not in the graph) afterwards -/
theorem removeFlagged_removed (g : Graph) (flags : List Int) (kind : Nat → NodeKind) (i : Nat)
    (h : flags[i]? = some 1) : (removeFlagged g flags kind).removed.getD (nodeIdOf g (kind i)) true = true := by
  have hmem : ((1 : Int), i) ∈ flags.zipIdx := List.mem_zipIdx_iff_getElem?.2 h
  unfold removeFlagged
  generalize flags.zipIdx = L at hmem
  have key : ∀ (L : List (Int × Nat)) (g' : Graph), g'.nodes = g.nodes → ((1 : Int), i) ∈ L →
      (L.foldl (fun g (fm : Int × Nat) => removeIf g (nodeIdOf g (kind fm.2)) (fm.1 == 1)) g').removed.getD
        (nodeIdOf g (kind i)) true = true := by
    intro L
    induction L with
    | nil => intro _ _ hm; cases hm
    | cons a t ih =>
      intro g' hn hm
      simp only [List.foldl_cons]
      rcases List.mem_cons.1 hm with rfl | hm
      · have hid : nodeIdOf g' (kind i) = nodeIdOf g (kind i) := by unfold nodeIdOf; rw [hn]
        apply foldl_removeIf_mono (fun g (fm : Int × Nat) => nodeIdOf g (kind fm.2)) (fun _ fm => fm.1 == 1)
        simp only [hid]
        exact removeIf_sets g' _
      · exact ih _ ((removeIf_nodes _ _ _).trans hn) hm
  exact key L g rfl hmem

theorem removed_of_not_mem {g : Graph} (hg : GInv g) {k : NodeKind} (h : k ∉ g.nodes) :
    g.removed.getD (nodeIdOf g k) true = true := by
  unfold nodeIdOf
  rw [List.idxOf_eq_length h, List.getD_eq_getElem?_getD, List.getElem?_eq_none (by rw [hg.lenR]; exact Nat.le_refl _)]
  rfl

/-- one flag stage of the updater: when the option is on, the node of every entity whose flag is 1 is removed afterwards -/
theorem flag_stage (g : Graph) (hg : GInv g) (b : Bool) (has : Graph → Bool) (flags : List Int) (kind : Nat → NodeKind)
    (i : Nat) (hhas : has g = false → kind i ∉ g.nodes) (hb : b = true) (h : flags[i]? = some 1) :
    (if (b && has g) = true then removeFlagged g flags kind else g).removed.getD (nodeIdOf g (kind i)) true = true := by
  subst hb
  by_cases hh : has g = true
  · simp only [hh, Bool.and_self, ↓reduceIte]
    exact removeFlagged_removed g flags kind i h
  · have hf : has g = false := by simpa using hh
    simp only [hf, Bool.and_false, Bool.false_eq_true, ↓reduceIte]
    exact removed_of_not_mem hg (hhas hf)

theorem hasMachineNodes_false {g : Graph} (h : hasMachineNodes g = false) (m : Nat) : NodeKind.machine m ∉ g.nodes := by
  intro hm
  unfold hasMachineNodes at h
  have := List.any_eq_false.1 h _ hm
  simp at this

theorem hasJobNodes_false {g : Graph} (h : hasJobNodes g = false) (j : Nat) : NodeKind.job j ∉ g.nodes := by
  intro hm
  unfold hasJobNodes at h
  have := List.any_eq_false.1 h _ hm
  simp at this

theorem removeCompletedOps_nodes (I : Instance) (g : Graph) (refs : List OpRef) :
    (removeCompletedOps I g refs).nodes = g.nodes := by
  unfold removeCompletedOps
  induction refs generalizing g with
  | nil => rfl
  | cons a t ih => simp only [List.foldl_cons]; rw [ih, removeIf_nodes]

/-- after an update with both options on, reading flags that are 1 for machine `m`: the node of `m` is removed -/
theorem residualUpdate_mach_removed (c : Cfg) (s : State) (heap : List FObs) (o : FObs) (hg : GInv o.graph)
    (hrm : o.rmMach = true) (i : Nat) (ic : FObs) (hi : o.parts.head? = some i) (hic : heap[i]? = some ic) (m : Nat)
    (hm : (ic.col .machines)[m]? = some 1) :
    (residualUpdate c s heap o).removed.getD (nodeIdOf o.graph (.machine m)) true = true := by
  have hic' : heap.getD i default = ic := by simp [List.getD_eq_getElem?_getD, hic]
  unfold residualUpdate
  simp only [hi, hic']
  have h1 : GInv (removeCompletedOps c.I o.graph (completedPure c s)) :=
    ginv_foldl _ (fun g r hg => ginv_removeIf hg _ _) _ _ hg
  have hn1 := removeCompletedOps_nodes c.I o.graph (completedPure c s)
  generalize removeCompletedOps c.I o.graph (completedPure c s) = g1 at h1 hn1
  have hid : nodeIdOf o.graph (.machine m) = nodeIdOf g1 (.machine m) := by unfold nodeIdOf; rw [hn1]
  rw [hid]
  have h2 := flag_stage g1 h1 o.rmMach hasMachineNodes (ic.col .machines) .machine m
    (fun hf => hasMachineNodes_false hf m) hrm hm
  generalize (if (o.rmMach && hasMachineNodes g1) = true then removeFlagged g1 (ic.col .machines) .machine else g1) = g2
    at h2
  split
  · exact removeFlagged_mono _ _ _ _ h2
  · exact h2

/-- after an update with both options on, reading flags that are 1 for job `j`: the node of `j` is removed -/
theorem residualUpdate_job_removed (c : Cfg) (s : State) (heap : List FObs) (o : FObs) (hg : GInv o.graph)
    (hrj : o.rmJob = true) (i : Nat) (ic : FObs) (hi : o.parts.head? = some i) (hic : heap[i]? = some ic) (j : Nat)
    (hj : (ic.col .jobs)[j]? = some 1) :
    (residualUpdate c s heap o).removed.getD (nodeIdOf o.graph (.job j)) true = true := by
  have hic' : heap.getD i default = ic := by simp [List.getD_eq_getElem?_getD, hic]
  unfold residualUpdate
  simp only [hi, hic']
  have h1 : GInv (removeCompletedOps c.I o.graph (completedPure c s)) :=
    ginv_foldl _ (fun g r hg => ginv_removeIf hg _ _) _ _ hg
  have hn1 := removeCompletedOps_nodes c.I o.graph (completedPure c s)
  generalize removeCompletedOps c.I o.graph (completedPure c s) = g1 at h1 hn1
  have h2 : GInv (if (o.rmMach && hasMachineNodes g1) = true then removeFlagged g1 (ic.col .machines) .machine else g1) := by
    split
    · exact ginv_foldl _ (fun g fm hg => ginv_removeIf hg _ _) _ _ h1
    · exact h1
  have hn2 : (if (o.rmMach && hasMachineNodes g1) = true then removeFlagged g1 (ic.col .machines) .machine else g1).nodes
      = o.graph.nodes := by
    split
    · rw [removeFlagged_nodes, hn1]
    · exact hn1
  generalize (if (o.rmMach && hasMachineNodes g1) = true then removeFlagged g1 (ic.col .machines) .machine else g1) = g2
    at h2 hn2
  have hid : nodeIdOf o.graph (.job j) = nodeIdOf g2 (.job j) := by unfold nodeIdOf; rw [hn2]
  rw [hid]
  exact flag_stage g2 h2 o.rmJob hasJobNodes (ic.col .jobs) .job j (fun hf => hasJobNodes_false hf j) hrj hj

/-! ## the built graphs -/

def shapeL (n M J : Nat) (S : List NodeKind) : List NodeKind :=
  (List.range n).map NodeKind.operation ++ (List.range M).map NodeKind.machine ++ (List.range J).map NodeKind.job ++ S

theorem shapeL_length (n M J : Nat) (S : List NodeKind) : (shapeL n M J S).length = n + M + J + S.length := by
  simp [shapeL]; omega

theorem shape_cases (n M J : Nat) (S : List NodeKind) (d : NodeKind) (k : Nat) (hk : k < (shapeL n M J S).length) :
    (k < n ∧ (shapeL n M J S).getD k d = .operation k) ∨
    (∃ m, m < M ∧ k = n + m ∧ (shapeL n M J S).getD k d = .machine m ∧
      List.idxOf (NodeKind.machine m) (shapeL n M J S) = k) ∨
    (∃ j, j < J ∧ k = n + M + j ∧ (shapeL n M J S).getD k d = .job j ∧
      List.idxOf (NodeKind.job j) (shapeL n M J S) = k) ∨
    (n + M + J ≤ k ∧ (shapeL n M J S).getD k d ∈ S) := by
  rw [shapeL_length] at hk
  by_cases h1 : k < n
  · left
    refine ⟨h1, ?_⟩
    simp [shapeL, List.getD_eq_getElem?_getD, List.getElem?_append, h1]
  · by_cases h2 : k < n + M
    · right; left
      refine ⟨k - n, by omega, by omega, ?_, ?_⟩
      · have : k - n < M := by omega
        simp [shapeL, List.getD_eq_getElem?_getD, List.getElem?_append, h1, this]
      · have := idxOf_machine n M (k - n) ((List.range J).map NodeKind.job ++ S) (by omega)
        unfold shapeL
        rw [List.append_assoc _ _ S, this]; omega
    · by_cases h3 : k < n + M + J
      · right; right; left
        refine ⟨k - (n + M), by omega, by omega, ?_, ?_⟩
        · have a1 : ¬ k - n < M := by omega
          have a2 : k - (n + M) < J := by omega
          have a3 : k - n - M = k - (n + M) := by omega
          simp [shapeL, List.getD_eq_getElem?_getD, List.getElem?_append, h1, a1, a2, a3]
        · have := idxOf_job n M J (k - (n + M)) S (by omega)
          unfold shapeL
          rw [this]; omega
      · right; right; right
        refine ⟨by omega, ?_⟩
        have hlt : k - (n + M + J) < S.length := by omega
        have : (shapeL n M J S).getD k d = S[k - (n + M + J)] := by
          have a1 : ¬ k - n < M := by omega
          have a2 : ¬ k - (n + M) < J := by omega
          have a4 : k - n - M = k - (n + M) := by omega
          have a3 : k - (n + M) - J = k - (n + M + J) := by omega
          simp [shapeL, List.getD_eq_getElem?_getD, List.getElem?_append, h1, a1, a2, a3, a4, hlt]
        rw [this]; exact List.getElem_mem _

theorem sp_false_of_lt {g : Graph} {n M J : Nat} {S : List NodeKind} (hn : g.nodes = shapeL n M J S) {k : Nat}
    (hk : k < n + M + J) : sp g k = false := by
  have hlt : k < (shapeL n M J S).length := by rw [shapeL_length]; omega
  unfold sp
  rw [hn]
  rcases shape_cases n M J S (.operation 0) k hlt with ⟨_, h⟩ | ⟨m, _, _, h, _⟩ | ⟨j, _, _, h, _⟩ | ⟨h, _⟩
  · rw [h]; rfl
  · rw [h]; rfl
  · rw [h]; rfl
  · omega

theorem sp_false_of_ge {g : Graph} {k : Nat} (hk : g.nodes.length ≤ k) : sp g k = false := by
  unfold sp
  rw [List.getD_eq_getElem?_getD, List.getElem?_eq_none hk]; rfl

/-- a node that is not special is an operation node, a machine node or a job node, at the id the updater looks it up under -/
theorem nonspecial_cases {g : Graph} {n M J : Nat} {S : List NodeKind} (hn : g.nodes = shapeL n M J S)
    (hS : ∀ x ∈ S, isSpecial x = true) {k : Nat} (hk : k < g.nodes.length) (hsp : sp g k = false) :
    k < n ∨ (∃ m, m < M ∧ nodeIdOf g (.machine m) = k) ∨ (∃ j, j < J ∧ nodeIdOf g (.job j) = k) := by
  unfold sp at hsp
  unfold nodeIdOf
  rw [hn] at hk hsp ⊢
  rcases shape_cases n M J S (.operation 0) k hk with ⟨h, _⟩ | ⟨m, hm, _, _, h⟩ | ⟨j, hj, _, _, h⟩ | ⟨_, h⟩
  · exact Or.inl h
  · exact Or.inr (Or.inl ⟨m, hm, h⟩)
  · exact Or.inr (Or.inr ⟨j, hj, h⟩)
  · rw [hS _ h] at hsp; cases hsp

theorem specialSep_of_lt {g : Graph} {n M J : Nat} {S : List NodeKind} (hn : g.nodes = shapeL n M J S)
    (h : ∀ a e, e ∈ g.adj.getD a [] → a < n + M + J ∨ e.1 < n + M + J) : SpecialSep g := by
  intro a e he hs
  rcases h a e he with h1 | h1
  · rw [sp_false_of_lt hn h1] at hs; cases hs
  · exact sp_false_of_lt hn h1

/-- the node list of every built graph: operations, machines, jobs, special nodes -/
theorem build_shape (b : Builder) (I : Instance) : ∃ M J S, (build b I).nodes = shapeL (numOps I) M J S ∧
    M ≤ numMachines I ∧ J ≤ I.length ∧ (∀ x ∈ S, isSpecial x = true) := by
  obtain ⟨h1, h2, h3, h4⟩ := C16_nodes I
  cases b with
  | disjunctive =>
    refine ⟨0, 0, [.source, .sink], by rw [h1]; simp [shapeL], Nat.zero_le _, Nat.zero_le _, ?_⟩
    intro x hx; simp at hx; rcases hx with rfl | rfl <;> rfl
  | agentTask =>
    exact ⟨numMachines I, 0, [], by rw [h2]; simp [shapeL], Nat.le_refl _, Nat.zero_le _, by intro x hx; cases hx⟩
  | agentTaskJobs =>
    exact ⟨numMachines I, I.length, [], by rw [h3]; simp [shapeL], Nat.le_refl _, Nat.le_refl _, by intro x hx; cases hx⟩
  | completeAgentTask =>
    refine ⟨numMachines I, I.length, [.global], by rw [h4]; simp [shapeL], Nat.le_refl _, Nat.le_refl _, ?_⟩
    intro x hx; simp at hx; subst hx; rfl

/-- no special node at all -/
theorem sp_false_of_nil {g : Graph} {n M J : Nat} (hn : g.nodes = shapeL n M J []) (k : Nat) : sp g k = false := by
  by_cases hk : k < g.nodes.length
  · apply sp_false_of_lt hn
    rw [hn, shapeL_length] at hk; simpa using hk
  · exact sp_false_of_ge (by omega)

theorem hasEdge_of_mem {g : Graph} {a : Nat} {e : Nat × EType} (h : e ∈ g.adj.getD a []) : HasEdge g a e.1 e.2 := h

/-- no builder joins two special nodes -/
theorem specialSep_build (b : Builder) (I : Instance) : SpecialSep (build b I) := by
  cases b with
  | disjunctive =>
    have st := stage_disjunctive I
    have hn : (build .disjunctive I).nodes = shapeL (numOps I) 0 0 [.source, .sink] := by
      rw [(C16_nodes I).1]; simp [shapeL]
    apply specialSep_of_lt hn
    intro a e he
    rcases (st.edges a e.1 e.2).1 (hasEdge_of_mem he) with ⟨x, hx, y, hy, _, h1, _, _⟩ | ⟨x, hx, _, _, h2, _⟩ |
      ⟨x, hx, _, h1, _, _⟩
    · left; rw [h1]; have := opId_lt hx; omega
    · right; rw [h2]; have := opId_lt hx; omega
    · left; rw [h1]; have := opId_lt hx; omega
  | agentTask =>
    have hn : (build .agentTask I).nodes = shapeL (numOps I) (numMachines I) 0 [] := by
      rw [(C16_nodes I).2.1]; simp [shapeL]
    intro a e _ _
    exact sp_false_of_nil hn _
  | agentTaskJobs =>
    have hn : (build .agentTaskJobs I).nodes = shapeL (numOps I) (numMachines I) I.length [] := by
      rw [(C16_nodes I).2.2.1]; simp [shapeL]
    intro a e _ _
    exact sp_false_of_nil hn _
  | completeAgentTask =>
    have st := stage_completeAgentTask I
    have hn : (build .completeAgentTask I).nodes = shapeL (numOps I) (numMachines I) I.length [.global] := by
      rw [(C16_nodes I).2.2.2]; simp [shapeL]
    apply specialSep_of_lt hn
    intro a e he
    obtain ⟨hs, _⟩ := (st.edges a e.1 e.2).1 (hasEdge_of_mem he)
    rcases hs with h | h | ⟨m, hm, (⟨_, h⟩ | ⟨h, _⟩)⟩ | ⟨j, hj, (⟨_, h⟩ | ⟨h, _⟩)⟩
    · have := opMachEdge_lt h; left; omega
    · have := opJobEdge_lt h; left; omega
    · right; omega
    · left; omega
    · right; omega
    · left; omega

/-- every special node of a built graph has an edge, when the instance has a job and no job is empty -/
theorem noIsoS_build (b : Builder) (I : Instance) (hne : I ≠ []) (hnj : NoEmptyJobG I) : NoIsoS (build b I) := by
  have hlen : 0 < I.length := List.length_pos_iff.2 hne
  have hL := hnj 0 hlen
  cases b with
  | disjunctive =>
    have st := stage_disjunctive I
    have hn : (build .disjunctive I).nodes = shapeL (numOps I) 0 0 [.source, .sink] := by
      rw [(C16_nodes I).1]; simp [shapeL]
    intro k hp hs
    have hk : k < (build .disjunctive I).nodes.length := by
      simp only [Graph.present, Bool.and_eq_true, decide_eq_true_eq] at hp; exact hp.1
    have hk2 : k < numOps I + 2 := by rw [hn, shapeL_length] at hk; simpa using hk
    have hk1 : ¬ k < numOps I := by
      intro h
      rw [sp_false_of_lt hn (by omega)] at hs; cases hs
    have h00 : ((0 : Nat), (0 : Nat)) ∈ allOps I := (mem_allOps_iff I 0 0).2 ⟨hlen, by omega⟩
    have hlast : ((0 : Nat), (I.getD 0 []).length - 1) ∈ allOps I := (mem_allOps_iff I 0 _).2 ⟨hlen, by omega⟩
    by_cases hks : k = numOps I
    · subst hks
      refine ⟨numOps I, (opId I (0, 0), .conjunctive), ⟨hp, ?_⟩, Or.inl rfl⟩
      exact (st.edges _ _ _).2 (Or.inr (Or.inl ⟨(0, 0), h00, rfl, rfl, rfl, rfl⟩))
    · have hk3 : k = numOps I + 1 := by omega
      subst hk3
      refine ⟨opId I (0, (I.getD 0 []).length - 1), (numOps I + 1, .conjunctive), ⟨?_, ?_⟩, Or.inr rfl⟩
      · apply present_of_noRemoved st.nr
        rw [st.nodes]
        have := opId_lt hlast
        simp only [List.length_append, List.length_map, List.length_range, List.length_cons, List.length_nil]; omega
      · refine (st.edges _ _ _).2 (Or.inr (Or.inr ⟨(0, (I.getD 0 []).length - 1), hlast, ?_, rfl, rfl, rfl⟩))
        rw [mem_allOps_iff]
        simp only
        omega
  | agentTask =>
    have hn : (build .agentTask I).nodes = shapeL (numOps I) (numMachines I) 0 [] := by
      rw [(C16_nodes I).2.1]; simp [shapeL]
    intro k _ hs
    rw [sp_false_of_nil hn k] at hs; cases hs
  | agentTaskJobs =>
    have hn : (build .agentTaskJobs I).nodes = shapeL (numOps I) (numMachines I) I.length [] := by
      rw [(C16_nodes I).2.2.1]; simp [shapeL]
    intro k _ hs
    rw [sp_false_of_nil hn k] at hs; cases hs
  | completeAgentTask =>
    have st := stage_completeAgentTask I
    have hn : (build .completeAgentTask I).nodes = shapeL (numOps I) (numMachines I) I.length [.global] := by
      rw [(C16_nodes I).2.2.2]; simp [shapeL]
    intro k hp hs
    have hk : k < (build .completeAgentTask I).nodes.length := by
      simp only [Graph.present, Bool.and_eq_true, decide_eq_true_eq] at hp; exact hp.1
    have hk2 : k < numOps I + numMachines I + I.length + 1 := by rw [hn, shapeL_length] at hk; simpa using hk
    have hk1 : ¬ k < numOps I + numMachines I + I.length := by
      intro h
      rw [sp_false_of_lt hn h] at hs; cases hs
    have hks : k = numOps I + numMachines I + I.length := by omega
    subst hks
    refine ⟨_, (numOps I + numMachines I + 0, .untyped), ⟨hp, ?_⟩, Or.inl rfl⟩
    exact (st.edges _ _ _).2 ⟨Or.inr (Or.inr (Or.inr ⟨0, hlen, Or.inl ⟨rfl, rfl⟩⟩)), rfl⟩

theorem present_iff {g : Graph} {k : Nat} (hk : k < g.nodes.length) : g.present k = true ↔ g.removed.getD k true = false := by
  simp [Graph.present, hk]

/-- **the graph-level core**: operation, machine and job nodes all removed, no isolated special node, no edge between special nodes:
then every node is removed -/
theorem all_removed (I : Instance) (b : Builder) (g : Graph) (hg : GInv g) (hn : g.nodes = (build b I).nodes)
    (hiso : NoIsoS g) (hsep : SpecialSep g)
    (hops : ∀ k, k < numOps I → g.removed.getD k true = true)
    (hmach : ∀ m, m < numMachines I → g.removed.getD (nodeIdOf g (.machine m)) true = true)
    (hjob : ∀ j, j < I.length → g.removed.getD (nodeIdOf g (.job j)) true = true) :
    ∀ k, k < g.nodes.length → g.removed.getD k true = true := by
  obtain ⟨M, J, S, hsh, hM, hJ, hS⟩ := build_shape b I
  have hn' : g.nodes = shapeL (numOps I) M J S := hn.trans hsh
  have hnon : ∀ k, k < g.nodes.length → sp g k = false → g.removed.getD k true = true := by
    intro k hk hs
    rcases nonspecial_cases hn' hS hk hs with h | ⟨m, hm, h⟩ | ⟨j, hj, h⟩
    · exact hops k h
    · rw [← h]; exact hmach m (by omega)
    · rw [← h]; exact hjob j (by omega)
  intro k hk
  cases hsk : sp g k with
  | false => exact hnon k hk hsk
  | true =>
    cases hr : g.removed.getD k true with
    | true => rfl
    | false =>
      exfalso
      have hp : g.present k = true := (present_iff hk).2 hr
      obtain ⟨a, e, ⟨hpa, he⟩, hk'⟩ := hiso k hp hsk
      have hpe : g.present e.1 = true := hg.target a e he
      have hlta : a < g.nodes.length := by
        simp only [Graph.present, Bool.and_eq_true, decide_eq_true_eq] at hpa; exact hpa.1
      have hlte : e.1 < g.nodes.length := by
        simp only [Graph.present, Bool.and_eq_true, decide_eq_true_eq] at hpe; exact hpe.1
      rcases hk' with rfl | rfl
      · have := hnon e.1 hlte (hsep a e he hsk)
        rw [(present_iff hlte).1 hpe] at this; cases this
      · cases hsa : sp g a with
        | false =>
          have := hnon a hlta hsa
          rw [(present_iff hlta).1 hpa] at this; cases this
        | true =>
          rw [hsep a e he hsa] at hsk; cases hsk


/-! ## the complete state -/

theorem complete_facts (c : Cfg) (hv : Valid c.I) (evs : List Ev) (hcomp : isComplete c.I (run c evs) = true) :
    unscheduledPure c.I (run c evs) = [] ∧ ∀ r ∈ allOps c.I, r ∈ completedPure c (run c evs) := by
  have hC := (C01_complete_iff c hv evs).2.1 hcomp
  have hfin := C06_final c hv evs hcomp
  constructor
  · apply List.eq_nil_iff_forall_not_mem.2
    intro r hr
    obtain ⟨h1, h2⟩ := ((C05_scheduled_iff c hv evs r).2).1 hr
    obtain ⟨x, hx, hxj, hxp⟩ := hC r.1 r.2 h1
    exact h2 ⟨x, hx, by rw [hxj, hxp]⟩
  · intro r hr
    have hog : ongoingPure c (run c evs) = [] := by
      apply List.eq_nil_iff_forall_not_mem.2
      intro y hy
      obtain ⟨hy1, hy2⟩ := (C05_ongoing_iff c hv evs y).1 hy
      have := cinv_end_le_makespan (inv_run hv evs).cinv y hy1
      omega
    obtain ⟨x, hx, hxj, hxp⟩ := hC r.1 r.2 ((mem_allOps' _ _).1 hr)
    have hs : r ∈ scheduledPure c.I (run c evs) := ((C05_scheduled_iff c hv evs r).1).2 ⟨x, hx, by rw [hxj, hxp]⟩
    unfold completedPure
    simp only [hog, List.map_nil]
    exact (mem_sortRefs _ _ _).2 ⟨hr, List.mem_filter.2 ⟨hs, by simp⟩⟩

theorem complMach_one {I : Instance} {s : State} (hu : unscheduledPure I s = []) {m : Nat} (hm : m < numMachines I)
    (hused : machineUsed I m = true) : (complMachSpec I s)[m]? = some 1 := by
  have h0 : (remMachSpec I s).getD m 0 = 0 := by
    unfold remMachSpec
    rw [hu, List.getD_eq_getElem?_getD, List.getElem?_map, List.getElem?_range hm]
    rfl
  unfold complMachSpec
  rw [List.getElem?_map, List.getElem?_range hm]
  simp only [Option.map_some]
  rw [if_pos ⟨h0, hused⟩]

theorem complJobs_one {I : Instance} {s : State} (hu : unscheduledPure I s = []) {j : Nat} (hj : j < I.length)
    (hne : (I.getD j []).length ≠ 0) : (complJobsSpec I s)[j]? = some 1 := by
  have h0 : (remJobsSpec I s).getD j 0 = 0 := by
    unfold remJobsSpec
    rw [hu, List.getD_eq_getElem?_getD, List.getElem?_map, List.getElem?_range hj]
    rfl
  unfold complJobsSpec
  rw [List.getElem?_map, List.getElem?_range hj]
  simp only [Option.map_some]
  rw [if_pos ⟨h0, hne⟩]

theorem init_not_complete {I : Instance} (hne : I ≠ []) (hnj : NoEmptyJobG I) : isComplete I (init I) = false := by
  have h0 : numScheduled (init I) = 0 := by
    unfold numScheduled init
    simp only [List.map_replicate, List.length_nil]
    induction numMachines I with
    | zero => rfl
    | succ n ih => rw [List.replicate_succ, List.sum_cons, ih]
  have h1 : numOps I ≠ 0 := by
    cases I with
    | nil => exact absurd rfl hne
    | cons a t =>
      have := hnj 0 (by simp)
      simp only [List.getD_cons_zero] at this
      unfold numOps
      simp only [List.map_cons, List.sum_cons]
      omega
  unfold isComplete
  rw [h0]
  cases h : (0 == numOps I) with
  | false => rfl
  | true => exact absurd (beq_iff_eq.1 h).symm h1

open RW

/-! ## the world invariant -/

/-- the part of the invariant that does not depend on the dispatcher state -/
structure GXs (o : FObs) : Prop where
  noiso : NoIsoS o.graph
  sep : SpecialSep o.graph
  parts : o.rmMach = true → o.rmJob = true → ∃ i, o.parts.head? = some i

/-- what the last clause of C17 says about a residual observer with both options on, for the dispatcher state `s` -/
structure GX (c : Cfg) (s : State) (o : FObs) : Prop where
  st : GXs o
  done : isComplete c.I s = true → o.rmMach = true → o.rmJob = true →
    ∀ k, k < o.graph.nodes.length → o.graph.removed.getD k true = true

def XInv (w : FWorld) : Prop := ∀ (k : Nat) (o : FObs), w.heap[k]? = some o → o.kind = .residual → GX w.cfg w.s o

theorem gx_init {c : Cfg} (hne : c.I ≠ []) (hnj : NoEmptyJobG c.I) {o : FObs} (h : GXs o) : GX c (init c.I) o := by
  refine ⟨h, ?_⟩
  intro hc
  rw [init_not_complete hne hnj] at hc; cases hc

theorem gxs_fresh {I : Instance} (hne : I ≠ []) (hnj : NoEmptyJobG I) (b : Builder) (o : FObs) (hg : o.graph = build b I)
    (hp : o.rmMach = true → o.rmJob = true → ∃ i, o.parts.head? = some i) : GXs o :=
  ⟨by rw [hg]; exact noIsoS_build b I hne hnj, by rw [hg]; exact specialSep_build b I, hp⟩

theorem xinv_init (c : Cfg) : XInv (FWorld.init c) := fun k o h => by simp [FWorld.init] at h

/-- after constructors and resets: the dispatcher is in its initial state, every residual observer is untouched or holds its
initial graph -/
theorem xinv_of_rk {w w' : FWorld} (hne : w.cfg.I ≠ []) (hnj : NoEmptyJobG w.cfg.I)
    (hres : ∀ (k : Nat) (o : FObs), w.heap[k]? = some o → o.kind = .residual → GXs o ∧ ∃ b : Builder, o.graph0 = build b w.cfg.I)
    (e : RK w w') (hs : w'.s = init w.cfg.I) : XInv w' := by
  intro k o' ho' hk'
  have hlt : k < w.heap.length := by
    apply Classical.byContradiction; intro hn
    exact e.new k o' (by omega) ho' hk'
  obtain ⟨o, ho⟩ : ∃ o, w.heap[k]? = some o := ⟨w.heap[k], List.getElem?_eq_getElem hlt⟩
  obtain ⟨o2, g2, k2, r2, _⟩ := e.old k o ho
  rw [ho'] at g2; cases g2
  have hk : o.kind = .residual := k2.symm.trans hk'
  obtain ⟨gx, b, hb⟩ := hres k o ho hk
  rw [e.good.st.1, hs]
  apply gx_init hne hnj
  rcases r2 hk with rfl | rfl
  · exact gx
  · exact gxs_fresh hne hnj b _ hb gx.parts

theorem xinv_ctor_rk {w w' : FWorld} (hne : w.cfg.I ≠ []) (hnj : NoEmptyJobG w.cfg.I) (hX : XInv w) (hR : RInv w)
    (hs : w.s = init w.cfg.I) (e : RK w w') : XInv w' := by
  refine xinv_of_rk hne hnj (fun k o ho hk => ⟨(hX k o ho hk).st, ?_⟩) e (e.good.st.2.trans hs)
  obtain ⟨b, hb, _⟩ := (hR.res k o ho hk).1.built
  exact ⟨b, hb⟩

theorem xinv_reset {w : FWorld} (hne : w.cfg.I ≠ []) (hnj : NoEmptyJobG w.cfg.I) (hX : XInv w) (hR : RInv w) :
    XInv w.reset := by
  unfold FWorld.reset
  obtain ⟨e, _⟩ := rk_fold_callReset w.subs { w with s := JS.init w.cfg.I }
  refine xinv_of_rk (w := { w with s := JS.init w.cfg.I }) hne hnj (fun k o ho hk => ⟨(hX k o ho hk).st, ?_⟩) e e.good.st.2
  obtain ⟨b, hb, _⟩ := (hR.res k o ho hk).1.built
  exact ⟨b, hb⟩

theorem xinv_push_residual {w : FWorld} (hne : w.cfg.I ≠ []) (hnj : NoEmptyJobG w.cfg.I) (hX : XInv w)
    (hs : w.s = init w.cfg.I) (b : Builder) (o : FObs) (hg : o.graph = build b w.cfg.I)
    (hp : o.rmMach = true → o.rmJob = true → ∃ i, o.parts.head? = some i) : XInv (w.push o).1 := by
  intro k o' ho' hk'
  rcases FCtor.push_get ho' with h1 | ⟨_, rfl⟩
  · exact hX k o' h1 hk'
  · show GX w.cfg w.s o'
    rw [hs]
    exact gx_init hne hnj (gxs_fresh hne hnj b o' hg hp)

theorem xinv_constructResidual {w : FWorld} (hne : w.cfg.I ≠ []) (hnj : NoEmptyJobG w.cfg.I) (hX : XInv w) (hR : RInv w)
    (hs : w.s = init w.cfg.I) (b : Builder) (rm rj : Bool) : XInv (w.constructResidual (build b w.cfg.I) rm rj).1 := by
  unfold FWorld.constructResidual
  by_cases h1 : (w.subs.any fun id => (w.heap[id]?.map (·.kind)) == some FKind.residual) = true
  · rw [if_pos h1]; exact hX
  · rw [if_neg h1]
    simp only
    by_cases h2 : ((if rm then [FT.machines] else []) ++ (if rj then [FT.jobs] else [])).isEmpty = true
    · rw [if_pos h2]
      apply xinv_push_residual hne hnj hX hs b _ rfl
      intro hrm _
      simp only at hrm
      simp [hrm] at h2
    · rw [if_neg h2]
      obtain ⟨e, _, _⟩ := rk_getIsCompleted w ((if rm then [FT.machines] else []) ++ (if rj then [FT.jobs] else []))
      have h' := xinv_ctor_rk hne hnj hX hR hs e
      generalize w.getIsCompleted ((if rm then [FT.machines] else []) ++ (if rj then [FT.jobs] else [])) = r at e h'
      have hc : r.1.cfg = w.cfg := e.good.st.1
      have hs' : r.1.s = init r.1.cfg.I := by rw [hc, e.good.st.2]; exact hs
      apply xinv_push_residual (hc ▸ hne) (hc ▸ hnj) h' hs' b _ (by rw [hc])
      intro _ _
      exact ⟨r.2, rfl⟩

theorem xinv_ctor {w : FWorld} (hne : w.cfg.I ≠ []) (hnj : NoEmptyJobG w.cfg.I) (hX : XInv w) (hR : RInv w)
    (hs : w.s = init w.cfg.I) (e : FEv) (he : e.isCtor = true) : XInv (w.step e) := by
  cases e with
  | disp j p m => cases he
  | reset => cases he
  | construct k fts => exact xinv_ctor_rk hne hnj hX hR hs (rk_construct w k fts)
  | composite parts => exact xinv_ctor_rk hne hnj hX hR hs (rk_constructComposite w parts)
  | residual b rm rj => exact xinv_constructResidual hne hnj hX hR hs b rm rj

theorem exists_op_of_lt {I : Instance} {k : Nat} (hk : k < numOps I) : ∃ r ∈ allOps I, opId I r = k := by
  have : k ∈ (allOps I).map (opId I) := by rw [C14_ids]; exact List.mem_range.2 hk
  obtain ⟨r, hr, he⟩ := List.mem_map.1 this
  exact ⟨r, hr, he⟩

/-- the notification loop of an accepted dispatch preserves the invariant: if the new state is complete, every node is removed -/
theorem xinv_fold {w : FWorld} {s' : State} {j p mm : Nat} {op : Op} (hv : Valid w.cfg.I) (hnj : NoEmptyJobG w.cfg.I)
    (hmu : AllMachinesUsed w.cfg.I) (hf : FInv w) (h : RInv w) (hX : XInv w)
    (hc : CInv w.cfg.I w.s) (hsp : DispSpec w.cfg.I w.s s' j p mm op)
    (hmono : ∀ r, r ∈ completedPure w.cfg w.s → r ∈ completedPure w.cfg s')
    (hrun : ∃ evs', s' = run w.cfg evs') :
    XInv (w.subs.foldl (fun (W : FWorld) id => W.callUpdate (newEntry w.s j p mm op) id) { w with s := s' }) := by
  have hR' := rinv_fold hv hf h hc hsp hmono
  obtain ⟨f1, f2, f3, f4, _, f6⟩ :=
    fold_callUpdate_at (newEntry w.s j p mm op) w.subs { w with s := s' } hf.subs.nodup
  have hfold : ∀ (k : Nat) (o : FObs), k < w.heap.length → w.heap[k]? = some o →
      (w.subs.foldl (fun (W : FWorld) id => W.callUpdate (newEntry w.s j p mm op) id) { w with s := s' }).heap[k]? =
        some (updObs w.cfg s' (newEntry w.s j p mm op)
          ((List.range k).foldl (fun (W : FWorld) id => W.callUpdate (newEntry w.s j p mm op) id) { w with s := s' }).heap o) := by
    intro k o hk ho
    have := fold_range_at (newEntry w.s j p mm op) { w with s := s' } w.heap.length k hk o ho
    rw [← h.rng] at this
    exact this
  generalize w.subs.foldl (fun (W : FWorld) id => W.callUpdate (newEntry w.s j p mm op) id) { w with s := s' } = W
    at f1 f2 f3 f4 f6 hfold hR'
  intro k o' ho' hk'
  have hgok := (hR'.res k o' ho' hk').1
  have hlt : k < w.heap.length := by
    have := (List.getElem?_eq_some_iff.1 ho').1
    rw [f4] at this; exact this
  obtain ⟨o, ho⟩ : ∃ o, w.heap[k]? = some o := ⟨w.heap[k], List.getElem?_eq_getElem hlt⟩
  have hmem : k ∈ w.subs := by rw [h.rng]; exact List.mem_range.2 hlt
  rw [hfold k o hlt ho] at ho'
  cases ho'
  obtain ⟨kk, _, _⟩ := updObs_spec w.cfg hv hc hsp hmono
    ((List.range k).foldl (fun (W : FWorld) id => W.callUpdate (newEntry w.s j p mm op) id) { w with s := s' }).heap o
    (hf.shape k o ho) (hf.val k hmem o ho)
  have hk : o.kind = .residual := kk.symm.trans hk'
  rw [updObs_res _ _ _ _ _ hk] at hgok ⊢
  obtain ⟨g, pp⟩ := h.res k o ho hk
  have gx := hX k o ho hk
  obtain ⟨_, _, _, _, _, g6⟩ :=
    fold_callUpdate_at (newEntry w.s j p mm op) (List.range k) { w with s := s' } List.nodup_range
  rw [f3, f2] at hgok ⊢
  generalize ((List.range k).foldl (fun (W : FWorld) id => W.callUpdate (newEntry w.s j p mm op) id)
    { w with s := s' }).heap = heapk at hgok g6 ⊢
  refine ⟨⟨noIsoS_residualUpdate _ _ _ _ gx.st.noiso, specialSep_residualUpdate _ _ _ _ gx.st.sep, gx.st.parts⟩, ?_⟩
  intro hcomp hrm hrj
  simp only at hrm hrj
  obtain ⟨i, hi⟩ := gx.st.parts hrm hrj
  obtain ⟨hik, his, ic, hic, hkic, hm, hjj⟩ := pp i hi
  obtain ⟨hp, hhp⟩ := g6 i (List.mem_range.2 hik) ic hic
  obtain ⟨_, _, fM, fJ⟩ := ic_after hv hf hc hsp hmono his hic hkic hp
  obtain ⟨evs', rfl⟩ := hrun
  obtain ⟨hu, hall⟩ := complete_facts w.cfg hv evs' hcomp
  obtain ⟨b, hb, _⟩ := hgok.built
  have hnodes : (residualUpdate w.cfg (run w.cfg evs') heapk o).nodes = o.graph.nodes := RA.residualUpdate_nodes _ _ _ _
  apply all_removed w.cfg.I b _ hgok.ginv (hgok.nodes.trans (congrArg Graph.nodes hb)) (noIsoS_residualUpdate _ _ _ _ gx.st.noiso)
    (specialSep_residualUpdate _ _ _ _ gx.st.sep)
  · intro k' hk'
    obtain ⟨r, hr, rfl⟩ := exists_op_of_lt hk'
    exact hgok.compl r (hall r hr)
  · intro m hmlt
    have hid : nodeIdOf (residualUpdate w.cfg (run w.cfg evs') heapk o) (.machine m) = nodeIdOf o.graph (.machine m) := by
      unfold nodeIdOf; rw [hnodes]
    show (residualUpdate w.cfg (run w.cfg evs') heapk o).removed.getD
      (nodeIdOf (residualUpdate w.cfg (run w.cfg evs') heapk o) (.machine m)) true = true
    rw [hid]
    apply residualUpdate_mach_removed w.cfg _ heapk o g.ginv hrm i _ hi hhp m
    rw [fM (hm hrm)]
    exact complMach_one hu hmlt (hmu m hmlt)
  · intro jj hjlt
    have hid : nodeIdOf (residualUpdate w.cfg (run w.cfg evs') heapk o) (.job jj) = nodeIdOf o.graph (.job jj) := by
      unfold nodeIdOf; rw [hnodes]
    show (residualUpdate w.cfg (run w.cfg evs') heapk o).removed.getD
      (nodeIdOf (residualUpdate w.cfg (run w.cfg evs') heapk o) (.job jj)) true = true
    rw [hid]
    apply residualUpdate_job_removed w.cfg _ heapk o g.ginv hrj i _ hi hhp jj
    rw [fJ (hjj hrj)]
    exact complJobs_one hu hjlt (hnj jj hjlt)

/-- an accepted or rejected dispatch request preserves the invariant -/
theorem xinv_dispatch {w : FWorld} (hv : Valid w.cfg.I) (hF : w.cfg.F = none ∨ PosDurI w.cfg.I) (hnj : NoEmptyJobG w.cfg.I)
    (hmu : AllMachinesUsed w.cfg.I) (hf : FInv w) (h : RInv w) (hX : XInv w)
    (j p : Nat) (m : Option Int) : XInv (w.dispatch j p m).1 := by
  unfold FWorld.dispatch
  cases hdr : dispatchReq w.cfg.I w.s j p m with
  | error e => exact hX
  | ok s' =>
    simp only
    obtain ⟨mm, op, hop, _, hdd⟩ := dispatchReq_ok hdr
    obtain ⟨op', hsp⟩ := dispatch_ok hdd
    have hop' := hsp.hop
    rw [hop] at hop'; cases hop'
    obtain ⟨evs, hevs⟩ := hf.reach
    have hc : CInv w.cfg.I w.s := by rw [hevs]; exact (inv_run hv evs).cinv
    have hvop := hv j p op hop
    rw [find_new_entry hc hvop.2.2 hsp]
    simp only
    have hrun : s' = run w.cfg (evs ++ [.disp j p m]) := by
      rw [run_snoc, ← hevs]
      simp only [stepEv, hdr]
    have hmono : ∀ r, r ∈ completedPure w.cfg w.s → r ∈ completedPure w.cfg s' := by
      intro r hr
      rw [hrun]
      rw [hevs] at hr
      exact C06_completed_mono w.cfg hv hF evs j p m r hr
    exact xinv_fold hv hnj hmu hf h hX hc hsp hmono ⟨_, hrun⟩

/-! ## every reachable feature world -/

theorem all_ctors {c : Cfg} (hv : Valid c.I) (hne : c.I ≠ []) (hnj : NoEmptyJobG c.I) : ∀ (ctors : List FEv) (w : FWorld),
    w.cfg = c → FInv w → RInv w → XInv w → w.s = init c.I → (∀ e ∈ ctors, e.isCtor = true) →
    (∀ e ∈ ctors, e.NodupFts) →
    FInv (ctors.foldl FWorld.step w) ∧ RInv (ctors.foldl FWorld.step w) ∧ XInv (ctors.foldl FWorld.step w) ∧
      (ctors.foldl FWorld.step w).s = init c.I ∧ (ctors.foldl FWorld.step w).cfg = c
  | [], w, hc, h, hr, hx, hs, _, _ => ⟨h, hr, hx, hs, hc⟩
  | e :: t, w, hc, h, hr, hx, hs, hct, hnd => by
    simp only [List.foldl_cons]
    subst hc
    obtain ⟨h1, h2, h3⟩ := finv_ctor hv h hs e (hct e (List.mem_cons_self ..))
      (by intro k l he; have := hnd e (List.mem_cons_self ..); rw [he] at this; exact this)
    have hr1 := rinv_ctor hv hr hs e (hct e (List.mem_cons_self ..))
    have hx1 := xinv_ctor hne hnj hx hr hs e (hct e (List.mem_cons_self ..))
    exact all_ctors (c := w.cfg) hv hne hnj t _ h3 h1 hr1 hx1 h2
      (fun e' he' => hct e' (List.mem_cons_of_mem _ he')) (fun e' he' => hnd e' (List.mem_cons_of_mem _ he'))

theorem all_events {c : Cfg} (hv : Valid c.I) (hF : c.F = none ∨ PosDurI c.I) (hne : c.I ≠ []) (hnj : NoEmptyJobG c.I)
    (hmu : AllMachinesUsed c.I) : ∀ (evs : List FEv) (w : FWorld),
    w.cfg = c → FInv w → RInv w → XInv w → (∀ e ∈ evs, e.isCtor = false) →
    XInv (evs.foldl FWorld.step w) ∧ (evs.foldl FWorld.step w).cfg = c
  | [], w, hc, _, _, hx, _ => ⟨hx, hc⟩
  | e :: t, w, hc, h, hr, hx, hev => by
    simp only [List.foldl_cons]
    subst hc
    have he := hev e (List.mem_cons_self ..)
    have hrest : ∀ e' ∈ t, e'.isCtor = false := fun e' he' => hev e' (List.mem_cons_of_mem _ he')
    cases e with
    | disp j p m =>
      have hcfg : (w.dispatch j p m).1.cfg = w.cfg := (dispatch_keeps w j p m).2.2.1
      exact all_events (c := w.cfg) hv hF hne hnj hmu t _ hcfg (finv_dispatch hv hF h j p m)
        (rinv_dispatch hv hF h hr j p m) (xinv_dispatch hv hF hnj hmu h hr hx j p m) hrest
    | reset =>
      have hcfg : w.reset.cfg = w.cfg := (reset_keeps w).2.2.1
      exact all_events (c := w.cfg) hv hF hne hnj hmu t _ hcfg (finv_reset hv h).1 (rinv_reset hv hr)
        (xinv_reset hne hnj hx hr) hrest
    | construct k fts => simp [FEv.isCtor] at he
    | composite parts => simp [FEv.isCtor] at he
    | residual b rm rj => simp [FEv.isCtor] at he

theorem xinv_run (c : Cfg) (hv : Valid c.I) (hF : c.F = none ∨ PosDurI c.I) (hne : c.I ≠ []) (hnj : NoEmptyJobG c.I)
    (hmu : AllMachinesUsed c.I) (ctors evs : List FEv)
    (hct : ∀ e ∈ ctors, e.isCtor = true) (hnd : ∀ e ∈ ctors, e.NodupFts) (hev : ∀ e ∈ evs, e.isCtor = false) :
    XInv (FWorld.run c (ctors ++ evs)) ∧ (FWorld.run c (ctors ++ evs)).cfg = c := by
  unfold FWorld.run
  rw [List.foldl_append]
  obtain ⟨h0, hs0⟩ := finv_init c
  obtain ⟨h1, r1, x1, _, h3⟩ := all_ctors hv hne hnj ctors (FWorld.init c) rfl h0 (rinv_init c) (xinv_init c) hs0 hct hnd
  exact all_events hv hF hne hnj hmu evs _ h3 h1 r1 x1 hev

end RC

/-- **C17 (complete schedule: nothing is left)**, under the filter hypothesis of `C17_world` (no filter, or positive durations).
With both removal options on, on an instance with at least one job (`hI`), without empty jobs and without unused machines: in every
reachable feature world whose schedule is complete, every node of the residual graph is removed. -/
theorem C17_complete_all_removed_gen (c : Cfg) (hv : Valid c.I) (hF : c.F = none ∨ PosDurI c.I) (hI : c.I ≠ [])
    (hne : NoEmptyJobG c.I) (hmu : AllMachinesUsed c.I) (w : FWorld) (hw : Reached c w)
    (hcomp : isComplete c.I w.s = true)
    (id : Nat) (o : FObs) (ho : w.heap[id]? = some o) (hk : o.kind = .residual)
    (hopt : o.rmMach = true ∧ o.rmJob = true) :
    ∀ k, k < o.graph.nodes.length → o.graph.removed.getD k true = true := by
  obtain ⟨ctors, evs, hct, hnd, hev, rfl⟩ := hw.ex
  obtain ⟨hx, hc⟩ := RC.xinv_run c hv hF hI hne hmu ctors evs hct hnd hev
  have g := hx id o ho hk
  rw [hc] at g
  exact g.done hcomp hopt.1 hopt.2

/-- **C17 (complete schedule: nothing is left).**  The target statement with the extra hypothesis `hI : c.I ≠ []`, which cannot be
dropped (`C17_complete_needs_a_job`): on the instance without jobs the disjunctive graph keeps source and sink, the complete
agent-task graph keeps its global node. -/
theorem C17_complete_all_removed (c : Cfg) (hv : Valid c.I) (hp : PosDurI c.I) (hI : c.I ≠ []) (hne : NoEmptyJobG c.I)
    (hmu : AllMachinesUsed c.I) (w : FWorld) (hw : Reached c w)
    (hcomp : isComplete c.I w.s = true)
    (id : Nat) (hid : id ∈ w.subs) (o : FObs) (ho : w.heap[id]? = some o) (hk : o.kind = .residual)
    (hopt : o.rmMach = true ∧ o.rmJob = true) :
    ∀ k, k < o.graph.nodes.length → o.graph.removed.getD k true = true := by
  have _ := hid
  exact C17_complete_all_removed_gen c hv (Or.inr hp) hI hne hmu w hw hcomp id o ho hk hopt

/-- the world of the counterexample: the empty instance, a residual updater of the disjunctive graph, both options on -/
def RC.ceWorld : FWorld := FWorld.run { I := [] } [.residual .disjunctive true true]

set_option maxRecDepth 100000 in
/-- **the target without `c.I ≠ []` is false**: on the instance without jobs the schedule is complete from the start, and the
disjunctive graph's source and sink are never removed (`removed = [false, false]`) -/
theorem C17_complete_needs_a_job :
    ¬ ∀ (c : Cfg) (_ : Valid c.I) (_ : PosDurI c.I) (_ : NoEmptyJobG c.I) (_ : AllMachinesUsed c.I) (w : FWorld)
      (_ : Reached c w) (_ : isComplete c.I w.s = true) (id : Nat) (_ : id ∈ w.subs) (o : FObs) (_ : w.heap[id]? = some o)
      (_ : o.kind = .residual) (_ : o.rmMach = true ∧ o.rmJob = true),
      ∀ k, k < o.graph.nodes.length → o.graph.removed.getD k true = true := by
  intro H
  have hv : Valid ([] : Instance) := valid_of_validB (by decide)
  have hp : PosDurI ([] : Instance) := by intro j p op h; simp [getOp] at h
  have hne : NoEmptyJobG ([] : Instance) := by intro j hj; simp at hj
  have hmu : AllMachinesUsed ([] : Instance) := by intro m hm; simp [numMachines] at hm
  have hr : Reached { I := [] } RC.ceWorld :=
    ⟨[.residual .disjunctive true true], [], by decide, (by intro e he; simp at he; subst he; trivial),
      (by intro e he; cases he), rfl⟩
  have := H { I := [] } hv hp hne hmu RC.ceWorld hr (by decide) 3 (by decide) (RC.ceWorld.heap.getD 3 default)
    (by decide) (by decide) (by decide) 0 (by decide)
  revert this
  decide

set_option maxRecDepth 100000 in
/-- non-vacuity: the hypotheses hold for `posInstance`, and a reachable world with a complete schedule and a subscribed residual
updater with both options on exists (all its 10 nodes are removed) -/
example :
    let w := FWorld.run { I := posInstance } [.residual .completeAgentTask true true, .disp 0 0 (some 0), .disp 1 0 none,
      .disp 0 1 none, .disp 1 1 (some 0)]
    posInstance ≠ [] ∧ NoEmptyJobG posInstance ∧ AllMachinesUsed posInstance ∧ isComplete posInstance w.s = true ∧
      3 ∈ w.subs ∧ (w.heap[3]?.map fun o => (o.kind, o.rmMach, o.rmJob, o.graph.nodes.length, o.graph.removed.all id)) =
        some (.residual, true, true, 10, true) := by
  refine ⟨by decide, ?_, ?_, by decide, by decide, by decide⟩
  · intro j hj
    have : ∀ j, j < posInstance.length → (posInstance.getD j []).length ≠ 0 := by decide
    exact this j hj
  · intro m hm
    have : ∀ m, m < numMachines posInstance → machineUsed posInstance m = true := by decide
    exact this m hm

end JS

import JobShopProofs.Properties.C11World
import JobShopProofs.Properties.C04
/-!
# C04: the observer-based most-work-remaining score, read off the observers' actual arrays

`most_work_remaining_score` reads `DurationObserver.features[JOBS]` and `IsReadyObserver.features[JOBS]` and zeroes
the work of the jobs that are not ready.  The model of the rule (`score c s .mwkr`) is written with the
specifications of the two observers; here the two are connected through the feature-world theorems (`C11_world_*`):
in every reachable feature world — and for observers constructed late, in any dispatcher state — the list computed
from the arrays is the model's score list.
-/
namespace JS

/-- the score list `most_work_remaining_score` computes from the two observers' job columns -/
def observerMwkrScores (dur ready : FObs) : List Int :=
  List.zipWith (fun w r => if r == 0 then 0 else w) (dur.col .jobs) (ready.col .jobs)

/-- the two duration functions of the model (rules / feature observers) are the same function -/
theorem opDur_eq_opDurF : opDur = opDurF := rfl

/-- the job-level specification of `DurationObserver` is the remaining work the rules use -/
theorem durJobsSpec_eq_remainingWork (I : Instance) (s : State) :
    durJobsSpec I s = (List.range I.length).map fun j => remainingWork I s j := rfl

/-- the score list computed from the two *specification* columns is the model's score list -/
theorem specScores_eq (c : Cfg) (s : State) :
    List.zipWith (fun (w r : Int) => if r == 0 then 0 else w) (durJobsSpec c.I s)
        (indicator (numEntities c.I .jobs) (readyIds c s .jobs)) =
      (List.range c.I.length).map fun j => score c s .mwkr j := by
  simp only [durJobsSpec_eq_remainingWork, indicator, numEntities, readyIds, List.zipWith_map, List.zipWith_self, score]
  apply List.map_congr_left
  intro j _
  by_cases h : (availableJobsPure c s).contains j = true <;> simp

theorem observerMwkrScores_of_spec (c : Cfg) (s : State) (od or_ : FObs)
    (hD : od.col .jobs = durJobsSpec c.I s)
    (hR : or_.col .jobs = indicator (numEntities c.I .jobs) (readyIds c s .jobs)) :
    observerMwkrScores od or_ = (List.range c.I.length).map fun j => score c s .mwkr j := by
  unfold observerMwkrScores
  rw [hD, hR]
  exact specScores_eq c s

/-- in every reachable feature world that contains the two observers (subscribed, with job features), the scores read
off the arrays are the model's scores -/
theorem C04_observer_scores_world (c : Cfg) (hv : Valid c.I) (hF : c.F = none ∨ PosDurI c.I) (w : FWorld) (hw : Reached c w)
    (idD idR : Nat) (hD : idD ∈ w.subs) (hR : idR ∈ w.subs) (od or_ : FObs)
    (hod : w.heap[idD]? = some od) (hor : w.heap[idR]? = some or_)
    (hkD : od.kind = .duration) (hkR : or_.kind = .isReady) (hfD : FT.jobs ∈ od.fts) (hfR : FT.jobs ∈ or_.fts) :
    observerMwkrScores od or_ = (List.range c.I.length).map fun j => score c w.s .mwkr j :=
  observerMwkrScores_of_spec c w.s od or_
    (C11_world_duration_jobs c hv hF w hw idD hD od hod hkD hfD)
    (C11_world_isReady c hv hF w hw idR hR or_ hor hkR .jobs hfR)

/-! ## late construction -/

/-- the base object of a feature-observer constructor with the job feature only -/
def jobsBase (I : Instance) (kind : FKind) : FObs :=
  ({ kind := kind, fts := [.jobs], est := if kind == .earliestStart then estInitial I else [] } : FObs).zeroed I

theorem jobsBase_wf (I : Instance) (kind : FKind) : (jobsBase I kind).WF :=
  zeroed_wf I _ (by simp)

theorem construct_duration_jobs (w : FWorld) :
    w.construct .duration (some [.jobs]) =
      ((w.push (jobsBase w.cfg.I .duration)).1.setObs w.heap.length (durationInit w.cfg w.s (jobsBase w.cfg.I .duration)),
        some w.heap.length) := rfl

theorem construct_isReady_jobs (w : FWorld) :
    w.construct .isReady (some [.jobs]) =
      ((w.push (jobsBase w.cfg.I .isReady)).1.setObs w.heap.length (isReadyFeatures w.cfg w.s (jobsBase w.cfg.I .isReady)),
        some w.heap.length) := rfl

/-- the observers may also be created late (the scorer creates them lazily at whatever state it is first called in): a
`DurationObserver` and an `IsReadyObserver` constructed in ANY dispatcher state hold the specification of that state.
(No hypothesis on the world is needed: the constructors of the feature observers have no singleton guard.) -/
theorem C04_late_observers' (w : FWorld) :
    let r1 := w.construct .duration (some [.jobs])
    let r2 := r1.1.construct .isReady (some [.jobs])
    ∃ idD idR od or_, r1.2 = some idD ∧ r2.2 = some idR ∧ r2.1.heap[idD]? = some od ∧ r2.1.heap[idR]? = some or_ ∧
      od.kind = .duration ∧ or_.kind = .isReady ∧ idD ∈ r2.1.subs ∧ idR ∈ r2.1.subs ∧ r2.1.s = w.s ∧ r2.1.cfg = w.cfg ∧
      observerMwkrScores od or_ = (List.range w.cfg.I.length).map fun j => score w.cfg w.s .mwkr j := by
  intro r1 r2
  have hr1 : r1 = _ := construct_duration_jobs w
  have hr2 : r2 = _ := construct_isReady_jobs r1.1
  refine ⟨w.heap.length, w.heap.length + 1, durationInit w.cfg w.s (jobsBase w.cfg.I .duration),
    isReadyFeatures w.cfg w.s (jobsBase w.cfg.I .isReady), ?_, ?_, ?_, ?_, ?_, ?_, ?_, ?_, ?_, ?_, ?_⟩
  · rw [hr1]
  · rw [hr2, hr1]; simp [FWorld.push, FWorld.setObs]
  · rw [hr2, hr1]; simp [FWorld.push, FWorld.setObs]
  · rw [hr2, hr1]; simp [FWorld.push, FWorld.setObs]
  · rfl
  · rfl
  · rw [hr2, hr1]; simp [FWorld.push, FWorld.setObs]
  · rw [hr2, hr1]; simp [FWorld.push, FWorld.setObs]
  · rw [hr2, hr1]; rfl
  · rw [hr2, hr1]; rfl
  · apply observerMwkrScores_of_spec
    · exact (durationInit_jobs w.cfg w.s _ (jobsBase_wf _ _) (by simp [jobsBase, FObs.zeroed])).1
    · exact C11_isReady w.cfg w.s _ (by simp [jobsBase, FObs.zeroed]) .jobs (by simp [jobsBase, FObs.zeroed])

set_option linter.unusedVariables false in
/-- the target statement (the hypothesis `hs` is not needed: see `C04_late_observers'`) -/
theorem C04_late_observers (w : FWorld) (hs : SubsOK w) :
    let r1 := w.construct .duration (some [.jobs])
    let r2 := r1.1.construct .isReady (some [.jobs])
    ∃ idD idR od or_, r1.2 = some idD ∧ r2.2 = some idR ∧ r2.1.heap[idD]? = some od ∧ r2.1.heap[idR]? = some or_ ∧
      observerMwkrScores od or_ = (List.range w.cfg.I.length).map fun j => score w.cfg w.s .mwkr j := by
  intro r1 r2
  obtain ⟨idD, idR, od, or_, h1, h2, h3, h4, _, _, _, _, _, _, h5⟩ := C04_late_observers' w
  exact ⟨idD, idR, od, or_, h1, h2, h3, h4, h5⟩

/-! ## late observers stay synchronised

`C04_late_observers` speaks about the state in which the scorer is first called.  The scorer is then called again
after every later dispatch; the two observers are subscribers from their construction on, so they are updated by
every dispatch.  The following statements show that the scores read off their arrays remain the model's scores after
any later sequence of dispatch requests and resets: late construction preserves the value invariant `FInv` of the
feature world (and the heap invariant `HeapOK`), so `finv_events` applies to the extended world. -/

/-- `ObsVal` of a `DurationObserver` that has the job feature only -/
theorem obsVal_duration_jobs (c : Cfg) (s : State) (o : FObs) (hk : o.kind = .duration) (hf : o.fts = [.jobs])
    (hc : o.col .jobs = durJobsSpec c.I s) : ObsVal c s o := by
  constructor
  all_goals intro h
  all_goals first | (rw [hk] at h; cases h; done) | skip
  · intro h2; rw [hf] at h2; simp at h2
  · intro _; exact hc
  · intro _ h2; rw [hf] at h2; simp at h2

/-- `ObsVal` of an `IsReadyObserver` -/
theorem obsVal_isReady (c : Cfg) (s : State) (o : FObs) (hk : o.kind = .isReady)
    (hc : ∀ ft ∈ o.fts, o.col ft = indicator (numEntities c.I ft) (readyIds c s ft)) : ObsVal c s o := by
  constructor
  all_goals intro h
  all_goals first | (rw [hk] at h; cases h; done) | skip
  exact hc

/-- subscribing a new observer that satisfies its specification preserves the value invariant -/
theorem finv_push_set {w : FWorld} (h : FInv w) (b o : FObs) (hsh : o.kind.single = true → o.Shaped w.cfg.I)
    (hval : ObsVal w.cfg w.s o) : FInv ((w.push b).1.setObs w.heap.length o) := by
  have hheap : ((w.push b).1.setObs w.heap.length o).heap = w.heap ++ [o] := by
    simp only [FWorld.push, FWorld.setObs]; exact set_append_last _ _ _
  have hget : ∀ k o', (w.heap ++ [o])[k]? = some o' → (k < w.heap.length ∧ w.heap[k]? = some o') ∨ (k = w.heap.length ∧ o' = o) := by
    intro k o' hk
    by_cases hlt : k < w.heap.length
    · rw [List.getElem?_append_left hlt] at hk; exact Or.inl ⟨hlt, hk⟩
    · have hlen := (List.getElem?_eq_some_iff.1 hk).1
      simp only [List.length_append, List.length_singleton] at hlen
      have : k = w.heap.length := by omega
      subst this
      simp at hk
      exact Or.inr ⟨rfl, hk.symm⟩
  refine ⟨?_, subsOK_setObs (subsOK_push h.subs b) _ _, h.reach, ?_⟩
  · intro k o' hk hs
    rw [hheap] at hk
    rcases hget k o' hk with ⟨_, h1⟩ | ⟨_, rfl⟩
    · exact h.shape k o' h1 hs
    · exact hsh hs
  · intro id hid o' hk
    rw [hheap] at hk
    rcases hget id o' hk with ⟨hlt, h1⟩ | ⟨_, rfl⟩
    · have hid' : id ∈ w.subs := by
        simp only [FWorld.push, FWorld.setObs, List.mem_append, List.mem_singleton] at hid
        rcases hid with h2 | h2
        · exact h2
        · omega
      exact h.val id hid' o' h1
    · exact hval

/-- the world after the two late constructions: the invariant, and where the two observers are -/
theorem late_world (w : FWorld) (hI : FInv w) :
    let w2 := ((w.construct .duration (some [.jobs])).1.construct .isReady (some [.jobs])).1
    FInv w2 ∧ w2.cfg = w.cfg ∧ w2.s = w.s ∧ w.heap.length ∈ w2.subs ∧ w.heap.length + 1 ∈ w2.subs ∧
      (∃ od, w2.heap[w.heap.length]? = some od ∧ od.kind = .duration ∧ od.fts = [.jobs]) ∧
      (∃ or_, w2.heap[w.heap.length + 1]? = some or_ ∧ or_.kind = .isReady ∧ or_.fts = [.jobs]) := by
  intro w2
  have hw2 : w2 = ((w.construct .duration (some [.jobs])).1.construct .isReady (some [.jobs])).1 := rfl
  clear_value w2
  obtain ⟨idD, idR, od, or_, h1, h2, h3, h4, k1, k2, s1, s2, e1, e2, _⟩ := C04_late_observers' w
  have hid : idD = w.heap.length := by
    have := construct_duration_jobs w
    rw [this] at h1; exact (Option.some.inj h1).symm
  have hw1 : (w.construct .duration (some [.jobs])).1.heap.length = w.heap.length + 1 := by
    rw [construct_duration_jobs]; simp [FWorld.push, FWorld.setObs]
  have hir : idR = w.heap.length + 1 := by
    have := construct_isReady_jobs (w.construct .duration (some [.jobs])).1
    rw [this] at h2; rw [← hw1]; exact (Option.some.inj h2).symm
  subst hid hir
  have hI1 : FInv (w.construct .duration (some [.jobs])).1 := by
    rw [construct_duration_jobs]
    apply finv_push_set hI
    · intro _; exact (keeps_durationInit w.cfg w.s (zeroed_shaped _ _ (by simp))).shaped
    · exact obsVal_duration_jobs _ _ _ rfl rfl
        (durationInit_jobs w.cfg w.s _ (jobsBase_wf _ _) (by simp [jobsBase, FObs.zeroed])).1
  generalize hw1' : (w.construct .duration (some [.jobs])).1 = w1 at *
  have hI2 : FInv (w1.construct .isReady (some [.jobs])).1 := by
    rw [construct_isReady_jobs]
    apply finv_push_set hI1
    · intro _; exact (keeps_isReadyFeatures w1.cfg w1.s (zeroed_shaped _ _ (by simp))).shaped
    · exact obsVal_isReady _ _ _ rfl (fun ft hft => C11_isReady w1.cfg w1.s _ (by simp [jobsBase, FObs.zeroed]) ft hft)
  have hod : od.fts = [.jobs] := by
    have : (w1.construct .isReady (some [.jobs])).1.heap[w.heap.length]? =
        some (durationInit w.cfg w.s (jobsBase w.cfg.I .duration)) := by
      rw [← hw1', construct_isReady_jobs, construct_duration_jobs]; simp [FWorld.push, FWorld.setObs]
    rw [this] at h3; cases h3; rfl
  have hor : or_.fts = [.jobs] := by
    have : (w1.construct .isReady (some [.jobs])).1.heap[w.heap.length + 1]? =
        some (isReadyFeatures w1.cfg w1.s (jobsBase w1.cfg.I .isReady)) := by
      rw [construct_isReady_jobs, ← hw1]; simp [FWorld.push, FWorld.setObs]
    rw [this] at h4; cases h4; rfl
  subst hw2
  exact ⟨hI2, e2, e1, s1, s2, ⟨od, h3, k1, hod⟩, ⟨or_, h4, k2, hor⟩⟩

/-- `w'` still has, at every place where `w` has a `DurationObserver` or an `IsReadyObserver`, an observer of the same
class with the same feature types -/
def KeepDR (w w' : FWorld) : Prop :=
  ∀ (k : Nat) (o : FObs), w.heap[k]? = some o → (o.kind = .duration ∨ o.kind = .isReady) →
    ∃ o' : FObs, w'.heap[k]? = some o' ∧ o'.kind = o.kind ∧ o'.fts = o.fts

theorem KeepDR.refl (w : FWorld) : KeepDR w w := fun _ o h _ => ⟨o, h, rfl, rfl⟩

theorem KeepDR.trans {a b c : FWorld} (h1 : KeepDR a b) (h2 : KeepDR b c) : KeepDR a c := by
  intro k o ho hk
  obtain ⟨o1, g1, k1, f1⟩ := h1 k o ho hk
  obtain ⟨o2, g2, k2, f2⟩ := h2 k o1 g1 (by rw [k1]; exact hk)
  exact ⟨o2, g2, k2.trans k1, f2.trans f1⟩

theorem assignCols_kind (o : FObs) (g : FObs → FT → List Int) : (o.assignCols g).kind = o.kind := by
  unfold FObs.assignCols
  have : ∀ (l : List FT) (o : FObs), (l.foldl (fun o ft => o.setCol ft (g o ft)) o).kind = o.kind := by
    intro l
    induction l with
    | nil => intro o; rfl
    | cons a t ih => intro o; simp only [List.foldl_cons]; rw [ih]; rfl
  exact this o.fts o

theorem updObs_keepDR (c : Cfg) (s : State) (x : SOp) (hp : List FObs) (o : FObs)
    (hk : o.kind = .duration ∨ o.kind = .isReady) :
    (updObs c s x hp o).kind = o.kind ∧ (updObs c s x hp o).fts = o.fts := by
  rcases hk with hk | hk
  · have e : updObs c s x hp o = durationUpdate c s x o := by simp only [updObs, hk]
    rw [e]; unfold durationUpdate
    exact ⟨assignCols_kind o _, assignCols_fts o _⟩
  · have e : updObs c s x hp o = isReadyFeatures c s o := by simp only [updObs, hk]
    rw [e]; unfold isReadyFeatures
    exact ⟨assignCols_kind _ _, assignCols_fts _ _⟩

theorem dispatch_keepDR (w : FWorld) (hs : SubsOK w) (j p : Nat) (m : Option Int) : KeepDR w (w.dispatch j p m).1 := by
  unfold FWorld.dispatch
  cases dispatchReq w.cfg.I w.s j p m with
  | error e => exact KeepDR.refl w
  | ok s' =>
    simp only
    cases (s'.sched.flatten.find? fun x => x.job == j && x.pos == p) with
    | none => exact fun _ o h _ => ⟨o, h, rfl, rfl⟩
    | some x =>
      simp only
      obtain ⟨_, _, _, _, f5, f6⟩ := fold_callUpdate_at x w.subs { w with s := s' } hs.nodup
      intro k o ho hk
      by_cases hmem : k ∈ w.subs
      · obtain ⟨hp, hhp⟩ := f6 k hmem o ho
        obtain ⟨a, b⟩ := updObs_keepDR w.cfg s' x hp o hk
        exact ⟨_, hhp, a, b⟩
      · exact ⟨o, by rw [f5 k hmem]; exact ho, rfl, rfl⟩

open FWReset in
theorem reset_keepDR (w : FWorld) (h : FInv w) : KeepDR w w.reset := by
  have hj : J w.cfg { w with s := JS.init w.cfg.I } := by
    refine ⟨rfl, rfl, ⟨h.subs.nodup, h.subs.valid⟩, fun k o ho hs => h.shape k o ho hs, ?_⟩
    intro id hid o ho hk
    have := (h.val id hid o ho).estM hk
    exact ⟨this.1, this.2.1⟩
  obtain ⟨m, _⟩ := fold_callReset w.subs { w with s := JS.init w.cfg.I } hj (fun _ hid => hid)
  intro k o ho hk
  obtain ⟨o', g, k1, f1, _⟩ := m.old k o ho
  exact ⟨o', g, k1, f1 (by rcases hk with hk | hk <;> rw [hk] <;> rfl)⟩

/-- dispatch requests and resets keep the two kinds of observers in place and only extend the subscriber list -/
theorem events_keepDR {c : Cfg} (hv : Valid c.I) (hF : c.F = none ∨ PosDurI c.I) : ∀ (evs : List FEv) (w : FWorld),
    w.cfg = c → FInv w → (∀ e ∈ evs, e.isCtor = false) →
    KeepDR w (evs.foldl FWorld.step w) ∧ ∃ t, (evs.foldl FWorld.step w).subs = w.subs ++ t
  | [], w, _, _, _ => ⟨KeepDR.refl w, [], by simp⟩
  | e :: t, w, hc, h, hev => by
    simp only [List.foldl_cons]
    subst hc
    have he := hev e (List.mem_cons_self ..)
    have hrest : ∀ e' ∈ t, e'.isCtor = false := fun e' he' => hev e' (List.mem_cons_of_mem _ he')
    have key : FInv (w.step e) ∧ (w.step e).cfg = w.cfg ∧ KeepDR w (w.step e) ∧ ∃ t, (w.step e).subs = w.subs ++ t := by
      cases e with
      | disp j p m =>
        exact ⟨finv_dispatch hv hF h j p m, (dispatch_keeps w j p m).2.2.1, dispatch_keepDR w h.subs j p m,
          (dispatch_keeps w j p m).2.1⟩
      | reset => exact ⟨(finv_reset hv h).1, (reset_keeps w).2.2.1, reset_keepDR w h, (reset_keeps w).2.1⟩
      | construct k fts => simp [FEv.isCtor] at he
      | composite parts => simp [FEv.isCtor] at he
      | residual b rm rj => simp [FEv.isCtor] at he
    obtain ⟨k0, kc, k2, t1, k3⟩ := key
    obtain ⟨r1, t2, r2⟩ := events_keepDR hv hF t _ kc k0 hrest
    exact ⟨k2.trans r1, t1 ++ t2, by rw [r2, k3, List.append_assoc]⟩

/-- **C04 (lazily created observers, every later state).** Construct the two observers in any world that satisfies
the invariant of the feature world, then run any dispatch requests and resets: the scores read off the two observers'
arrays are the model's scores in the state reached. -/
theorem C04_late_observers_stay (w : FWorld) (hv : Valid w.cfg.I) (hF : w.cfg.F = none ∨ PosDurI w.cfg.I)
    (hI : FInv w) (evs : List FEv) (hev : ∀ e ∈ evs, e.isCtor = false) :
    let w2 := ((w.construct .duration (some [.jobs])).1.construct .isReady (some [.jobs])).1
    let w3 := evs.foldl FWorld.step w2
    ∃ od or_, w3.heap[w.heap.length]? = some od ∧ w3.heap[w.heap.length + 1]? = some or_ ∧
      observerMwkrScores od or_ = (List.range w.cfg.I.length).map fun j => score w.cfg w3.s .mwkr j := by
  intro w2 w3
  obtain ⟨hI2, hc2, _, m1, m2, ⟨od, a1, a2, a3⟩, ⟨or_, b1, b2, b3⟩⟩ := late_world w hI
  obtain ⟨hI3, hc3⟩ := finv_events (c := w.cfg) hv hF evs w2 hc2 hI2 hev
  obtain ⟨hx, t, ht⟩ := events_keepDR hv hF evs w2 hc2 hI2 hev
  obtain ⟨od', p1, p2, p3⟩ := hx _ od a1 (Or.inl a2)
  obtain ⟨or', q1, q2, q3⟩ := hx _ or_ b1 (Or.inr b2)
  refine ⟨od', or', p1, q1, ?_⟩
  have hm1 : w.heap.length ∈ w3.subs := by rw [ht]; exact List.mem_append_left _ m1
  have hm2 : w.heap.length + 1 ∈ w3.subs := by rw [ht]; exact List.mem_append_left _ m2
  have v1 := hI3.val _ hm1 od' p1
  have v2 := hI3.val _ hm2 or' q1
  rw [hc3] at v1 v2
  exact observerMwkrScores_of_spec w.cfg w3.s od' or'
    (v1.durJobs (p2.trans a2) (by rw [p3, a3]; simp))
    (v2.ready (q2.trans b2) .jobs (by rw [q3, b3]; simp))

/-- … in particular in every reachable feature world: whatever observers were constructed on the fresh dispatcher and
whatever happened since (`Reached c w`), the scorer may create its two observers now, and after any further dispatch
requests and resets the scores it reads off them are the model's scores. -/
theorem C04_late_observers_reached (c : Cfg) (hv : Valid c.I) (hF : c.F = none ∨ PosDurI c.I) (w : FWorld)
    (hw : Reached c w) (evs : List FEv) (hev : ∀ e ∈ evs, e.isCtor = false) :
    let w2 := ((w.construct .duration (some [.jobs])).1.construct .isReady (some [.jobs])).1
    let w3 := evs.foldl FWorld.step w2
    ∃ od or_, w3.heap[w.heap.length]? = some od ∧ w3.heap[w.heap.length + 1]? = some or_ ∧
      observerMwkrScores od or_ = (List.range c.I.length).map fun j => score c w3.s .mwkr j := by
  obtain ⟨ctors, evs0, hct, hnd, hev0, rfl⟩ := hw.ex
  obtain ⟨hI, hc⟩ := finv_run c hv hF ctors evs0 hct hnd hev0
  have := C04_late_observers_stay (FWorld.run c (ctors ++ evs0)) (by rw [hc]; exact hv) (by rw [hc]; exact hF) hI evs hev
  rw [hc] at this
  exact this

end JS

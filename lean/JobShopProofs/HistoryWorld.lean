import JobShopProofs.ResidualWorld
import JobShopProofs.Properties.C11World
import JobShopProofs.Properties.C02
import JobShopProofs.Properties.C13
import JobShopProofs.Properties.C20
/-!
# C10 / C20 on the whole feature world: the `HistoryObserver`

`C10_world_history`: in every reachable feature world (observers constructed on the fresh dispatcher, then any dispatch
requests and resets) a subscribed `HistoryObserver` holds exactly the entries accepted since the last reset, in dispatch
order: replaying its record (`replay` of `Properties/C02.lean`, the fold of the core `dispatch` that `C20_frame_k` uses for
the animation frames) on a fresh dispatcher rebuilds the current dispatcher state, and the replay of the first `k` recorded
entries has exactly these `k` entries in its schedule (start times included).

Route (as `RewardWorld.lean`): a world invariant `HistInv` over all history observers of the heap, run alongside `FInv` and
`RW.RInv` (the latter for `subs = List.range heap.length`).

* `HK w w'`: the frame relation of constructors and resets — kinds never change, a history observer is either untouched or
  empty, new history observers are empty.
* the dispatch: every subscriber is rewritten exactly once by `updObs`; for a history observer this appends the new entry.
-/
namespace JS

/-- the (job, position, machine) triples of a list of schedule entries -/
def triples (l : List SOp) : List (Nat × Nat × Nat) := l.map fun x => (x.job, x.pos, x.machine)

theorem triples_append (l1 l2 : List SOp) : triples (l1 ++ l2) = triples l1 ++ triples l2 := by
  simp [triples]

theorem triples_length (l : List SOp) : (triples l).length = l.length := by simp [triples]

theorem triples_take (l : List SOp) (k : Nat) : (triples l).take k = triples (l.take k) := by
  simp [triples, List.map_take]

namespace HistW

/-- the record `l` is faithful: the replay of its first `k` triples has exactly its first `k` entries in the schedule -/
def Faith (I : Instance) (l : List SOp) : Prop :=
  ∀ k, k ≤ l.length → (replay I (init I) ((triples l).take k)).sched.flatten.Perm (l.take k)

theorem faith_nil (I : Instance) : Faith I [] := by
  intro k _
  simp [triples, replay, FCtor.init_sched_flatten]

theorem replay_single {I : Instance} {s s' : State} {j p m : Nat} (h : dispatch I s j p m = .ok s') :
    replay I s [(j, p, m)] = s' := by
  simp [replay, h]

theorem faith_snoc {I : Instance} {l : List SOp} {x : SOp} {s' : State} (h : Faith I l)
    (hd : dispatch I (replay I (init I) (triples l)) x.job x.pos x.machine = .ok s')
    (hp : s'.sched.flatten.Perm ((replay I (init I) (triples l)).sched.flatten ++ [x])) : Faith I (l ++ [x]) := by
  intro k hk
  by_cases hle : k ≤ l.length
  · rw [triples_append, List.take_append_of_le_length (by rw [triples_length]; exact hle),
      List.take_append_of_le_length hle]
    exact h k hle
  · have hk' : k = l.length + 1 := by simp at hk; omega
    have e1 : (triples (l ++ [x])).take k = triples l ++ [(x.job, x.pos, x.machine)] := by
      rw [List.take_of_length_le (by rw [triples_length]; simp; omega), triples_append]; rfl
    have e2 : (l ++ [x]).take k = l ++ [x] := List.take_of_length_le (by simp; omega)
    rw [e1, e2, replay_append, replay_single hd]
    have h0 := h l.length (Nat.le_refl _)
    rw [List.take_of_length_le (by rw [triples_length]; exact Nat.le_refl _), List.take_length] at h0
    exact hp.trans (h0.append_right [x])

/-- a history observer right after its construction or reset -/
def Fresh (o : FObs) : Prop := o.hist = []

/-! ## the frame relation of constructors and resets -/

structure HK (w w' : FWorld) : Prop where
  st : w'.cfg = w.cfg ∧ w'.s = w.s
  len : w.heap.length ≤ w'.heap.length
  old : ∀ (k : Nat) (o : FObs), w.heap[k]? = some o → ∃ o' : FObs, w'.heap[k]? = some o' ∧ o'.kind = o.kind ∧
    (o.kind = .history → o' = o ∨ Fresh o')
  new : ∀ (k : Nat) (o' : FObs), w.heap.length ≤ k → w'.heap[k]? = some o' → o'.kind = .history → Fresh o'

theorem HK.refl (w : FWorld) : HK w w :=
  ⟨⟨rfl, rfl⟩, Nat.le_refl _, fun _ o h => ⟨o, h, rfl, fun _ => Or.inl rfl⟩,
    fun k o' hk h => by have := (List.getElem?_eq_some_iff.1 h).1; omega⟩

theorem HK.trans {a b c : FWorld} (h1 : HK a b) (h2 : HK b c) : HK a c := by
  refine ⟨⟨h2.st.1.trans h1.st.1, h2.st.2.trans h1.st.2⟩, Nat.le_trans h1.len h2.len, ?_, ?_⟩
  · intro k o ho
    obtain ⟨o1, g1, k1, r1⟩ := h1.old k o ho
    obtain ⟨o2, g2, k2, r2⟩ := h2.old k o1 g1
    refine ⟨o2, g2, k2.trans k1, ?_⟩
    intro hk
    have hk1 : o1.kind = .history := by rw [k1]; exact hk
    rcases r2 hk1 with e | e
    · rcases r1 hk with e1 | e1
      · left; rw [e, e1]
      · right; rw [e]; exact e1
    · right; exact e
  · intro k o' hk ho' hr
    by_cases hlt : k < b.heap.length
    · obtain ⟨o1, g1⟩ : ∃ o1, b.heap[k]? = some o1 := ⟨b.heap[k], List.getElem?_eq_getElem hlt⟩
      obtain ⟨o2, g2, k2, r2⟩ := h2.old k o1 g1
      rw [ho'] at g2; cases g2
      have hr1 : o1.kind = .history := by rw [← k2]; exact hr
      rcases r2 hr1 with e | e
      · rw [e]; exact h1.new k o1 hk g1 hr1
      · exact e
    · exact h2.new k o' (by omega) ho' hr

theorem hk_push (w : FWorld) (o : FObs) (h : o.kind = .history → Fresh o) : HK w (w.push o).1 := by
  refine ⟨⟨rfl, rfl⟩, by simp [FWorld.push], ?_, ?_⟩
  · intro k o0 h0
    exact ⟨o0, (FCtor.keep_push w o).keep k o0 h0, rfl, fun _ => Or.inl rfl⟩
  · intro k o' hk' ho' hr
    rcases FCtor.push_get ho' with h1 | ⟨_, rfl⟩
    · have := (List.getElem?_eq_some_iff.1 h1).1; omega
    · exact h hr

theorem hk_setObs (w : FWorld) (id : Nat) (o' : FObs)
    (h : ∀ o0, w.heap[id]? = some o0 → o'.kind = o0.kind ∧ (o0.kind = .history → Fresh o')) :
    HK w (w.setObs id o') := by
  refine ⟨⟨rfl, rfl⟩, by simp [FWorld.setObs], ?_, ?_⟩
  · intro k o hk
    by_cases hik : id = k
    · subst hik
      obtain ⟨a, b⟩ := h o hk
      exact ⟨o', FCtor.setObs_get_self hk o', a, fun hr => Or.inr (b hr)⟩
    · refine ⟨o, ?_, rfl, fun _ => Or.inl rfl⟩
      simp only [FWorld.setObs]
      rw [List.getElem?_set_ne hik]; exact hk
  · intro k o1 hk ho1 _
    have := (List.getElem?_eq_some_iff.1 ho1).1
    simp only [FWorld.setObs, List.length_set] at this
    omega

/-- rewriting an observer that is not a history observer, keeping its kind -/
theorem hk_setObs_plain {w : FWorld} {id : Nat} {o0 : FObs} (h0 : w.heap[id]? = some o0) (o' : FObs)
    (hk : o'.kind = o0.kind) (hr : o0.kind ≠ .history) : HK w (w.setObs id o') := by
  apply hk_setObs
  intro o1 h1
  rw [h0] at h1; cases h1
  exact ⟨hk, fun h => absurd h hr⟩

/-- rewriting a history observer by an empty one -/
theorem hk_setObs_fresh {w : FWorld} {id : Nat} {o0 : FObs} (h0 : w.heap[id]? = some o0) (o' : FObs)
    (hk : o'.kind = o0.kind) (hf : Fresh o') : HK w (w.setObs id o') := by
  apply hk_setObs
  intro o1 h1
  rw [h0] at h1; cases h1
  exact ⟨hk, fun _ => hf⟩

theorem kindAt_hk {w w' : FWorld} {id : Nat} {k : FKind} (h : KindAt w id k) (e : HK w w') : KindAt w' id k := by
  obtain ⟨o, ho, hk⟩ := h
  obtain ⟨o', ho', hk', _⟩ := e.old id o ho
  exact ⟨o', ho', hk'.trans hk⟩

/-! ## the helpers -/

theorem hk_getUnscheduled (w : FWorld) :
    HK w w.getUnscheduled.1 ∧ KindAt w.getUnscheduled.1 w.getUnscheduled.2 .unscheduled := by
  unfold FWorld.getUnscheduled
  cases hf : w.findObs .unscheduled [] with
  | some id =>
    obtain ⟨o, ho, hk⟩ := findObs_kind hf
    exact ⟨HK.refl w, o, ho, hk⟩
  | none => exact ⟨hk_push w _ (by simp), RW.kindAt_push w _⟩

theorem hk_newRemaining (w : FWorld) (fts : List FT) :
    HK w (w.newRemaining fts).1 ∧ KindAt (w.newRemaining fts).1 (w.newRemaining fts).2 .remainingOps := by
  rw [FCtor.newRemaining_eq]
  simp only
  have e1 := hk_push w (({ kind := .remainingOps, fts := fts } : FObs).zeroed w.cfg.I) (by simp [FObs.zeroed])
  have k1 : KindAt (w.push (({ kind := .remainingOps, fts := fts } : FObs).zeroed w.cfg.I)).1 w.heap.length .remainingOps :=
    RW.kindAt_push w _
  generalize (w.push (({ kind := .remainingOps, fts := fts } : FObs).zeroed w.cfg.I)).1 = w1 at e1 k1
  obtain ⟨e2, _⟩ := hk_getUnscheduled w1
  generalize w1.getUnscheduled = r2 at e2
  obtain ⟨w2, uid⟩ := r2
  simp only at e2 ⊢
  obtain ⟨o2, ho2, hk2⟩ := kindAt_hk k1 e2
  rw [getD_of_some ho2]
  have e3 := hk_setObs_plain ho2 (remainingInit w2.cfg (w2.heap.getD uid default).deques o2)
    (RW.remainingInit_kind _ _ _) (by rw [hk2]; simp)
  exact ⟨e1.trans (e2.trans e3), _, FCtor.setObs_get_self ho2 _, (RW.remainingInit_kind _ _ _).trans hk2⟩

theorem hk_getRemaining (w : FWorld) (need : List FT) :
    HK w (w.getRemaining need).1 ∧ KindAt (w.getRemaining need).1 (w.getRemaining need).2 .remainingOps := by
  unfold FWorld.getRemaining
  cases hf : w.findObs .remainingOps need with
  | some id =>
    obtain ⟨o, ho, hk⟩ := findObs_kind hf
    exact ⟨HK.refl w, o, ho, hk⟩
  | none => exact hk_newRemaining w need

theorem hk_isCompletedInit {w : FWorld} {id : Nat} (hk : KindAt w id .isCompleted) : HK w (w.isCompletedInit id) := by
  obtain ⟨o0, h0, hk0⟩ := hk
  unfold FWorld.isCompletedInit
  simp only
  rw [getD_of_some h0]
  have e1 : HK w (w.setObs id (o0.zeroed w.cfg.I)) := hk_setObs_plain h0 _ rfl (by rw [hk0]; simp)
  have g1 : (w.setObs id (o0.zeroed w.cfg.I)).heap[id]? = some (o0.zeroed w.cfg.I) := FCtor.setObs_get_self h0 _
  generalize w.setObs id (o0.zeroed w.cfg.I) = w1 at e1 g1
  obtain ⟨e2, _⟩ := hk_getRemaining w1 ((o0.zeroed w.cfg.I).fts.filter (· != .operations))
  generalize w1.getRemaining ((o0.zeroed w.cfg.I).fts.filter (· != .operations)) = r2 at e2
  obtain ⟨w2, rid⟩ := r2
  simp only at e2 ⊢
  obtain ⟨o2, ho2, hk2, _⟩ := e2.old id _ g1
  have hk2' : o2.kind = .isCompleted := hk2.trans hk0
  rw [getD_of_some ho2]
  have e3 := hk_setObs_plain ho2 { o2 with
      remJob := if o2.has .jobs then (w2.heap.getD rid default).col .jobs else o2.remJob,
      remMach := if o2.has .machines then (w2.heap.getD rid default).col .machines else o2.remMach } rfl
      (by rw [hk2']; simp)
  exact e1.trans (e2.trans e3)

theorem hk_resetRemaining {w : FWorld} {id : Nat} (hk : KindAt w id .remainingOps) : HK w (w.resetRemaining id) := by
  unfold FWorld.resetRemaining
  simp only
  obtain ⟨e1, u, hu, hku⟩ := hk_getUnscheduled w
  generalize w.getUnscheduled = r1 at e1 hu
  obtain ⟨w1, uid⟩ := r1
  simp only at e1 hu ⊢
  rw [getD_of_some hu]
  have e2 := hk_setObs_plain hu { u with deques := fullDequesF w1.cfg.I } rfl (by rw [hku]; simp)
  generalize w1.setObs uid { u with deques := fullDequesF w1.cfg.I } = w2 at e2
  obtain ⟨o2, ho2, hk2⟩ := kindAt_hk hk (e1.trans e2)
  rw [getD_of_some ho2]
  have e3 := hk_setObs_plain ho2 (remainingInit w2.cfg (w2.heap.getD uid default).deques (o2.zeroed w2.cfg.I))
    (RW.remainingInit_kind _ _ _) (by rw [hk2]; simp)
  exact e1.trans (e2.trans e3)

/-! ## one `reset()` callback -/

/-- the history observer at `k` (if there is one) is empty -/
def FreshAt (w : FWorld) (k : Nat) : Prop :=
  ∀ o : FObs, w.heap[k]? = some o → o.kind = .history → Fresh o

theorem freshAt_hk {w w' : FWorld} {k : Nat} (h : FreshAt w k) (e : HK w w') : FreshAt w' k := by
  intro o' ho' hk'
  by_cases hlt : k < w.heap.length
  · obtain ⟨o, ho⟩ : ∃ o, w.heap[k]? = some o := ⟨w.heap[k], List.getElem?_eq_getElem hlt⟩
    obtain ⟨o2, g2, k2, r2⟩ := e.old k o ho
    rw [ho'] at g2; cases g2
    have hk : o.kind = .history := by rw [← k2]; exact hk'
    rcases r2 hk with e1 | e1
    · rw [e1]; exact h _ ho hk
    · exact e1
  · exact e.new k o' (by omega) ho' hk'

theorem freshAt_nonhist {w w' : FWorld} {k : Nat} {o : FObs} (e : HK w w') (h0 : w.heap[k]? = some o)
    (hne : o.kind ≠ .history) : FreshAt w' k := by
  intro o' ho' hk'
  obtain ⟨o2, g2, k2, _⟩ := e.old k o h0
  rw [ho'] at g2; cases g2
  exact absurd (k2 ▸ hk') hne

theorem hk_callReset (w : FWorld) (id : Nat) : HK w (w.callReset id) ∧ FreshAt (w.callReset id) id := by
  have key : ∀ o, w.heap[id]? = some o → o.kind ≠ .history → HK w (w.callReset id) →
      HK w (w.callReset id) ∧ FreshAt (w.callReset id) id := fun o h0 hne e => ⟨e, freshAt_nonhist e h0 hne⟩
  cases h0 : w.heap[id]? with
  | none =>
    have : w.callReset id = w := by unfold FWorld.callReset; rw [h0]
    rw [this]
    exact ⟨HK.refl w, fun o ho => by rw [h0] at ho; cases ho⟩
  | some o =>
    by_cases hres : o.kind = .history
    · have : w.callReset id = w.setObs id { o with hist := [] } := by
        unfold FWorld.callReset; simp only [h0, hres]
      rw [this]
      have hf : Fresh { o with hist := [] } := rfl
      refine ⟨hk_setObs_fresh h0 _ rfl hf, ?_⟩
      intro o1 h1 _
      rw [FCtor.setObs_get_self h0] at h1
      cases h1; exact hf
    · apply key o h0 hres
      unfold FWorld.callReset
      simp only [h0]
      split
      · exact hk_setObs_plain h0 _ (RW.isReadyFeatures_kind _ _ _) hres
      · exact hk_setObs_plain h0 _ (RW.estFeatures_kind _ _ _) hres
      · exact hk_setObs_plain h0 _ (RW.durationInit_kind _ _ _) hres
      · exact hk_setObs_plain h0 _ rfl hres
      · exact hk_setObs_plain h0 _ (RW.positionInit_kind _ _ _) hres
      · rename_i hk
        exact hk_resetRemaining ⟨o, h0, hk⟩
      · rename_i hk
        obtain ⟨e1, g1⟩ := hk_getRemaining w (o.fts.filter (· != .operations))
        generalize w.getRemaining (o.fts.filter (· != .operations)) = r1 at e1 g1
        obtain ⟨w1, rid⟩ := r1
        simp only at e1 g1 ⊢
        have e2 := hk_resetRemaining g1
        have hk2 : KindAt (w1.resetRemaining rid) id .isCompleted := kindAt_hk ⟨o, h0, hk⟩ (e1.trans e2)
        exact e1.trans (e2.trans (hk_isCompletedInit hk2))
      · exact hk_setObs_plain h0 _ rfl hres
      · exact hk_setObs_plain h0 _ rfl hres
      · rename_i hk
        exact absurd hk hres
      · exact hk_setObs_plain h0 _ rfl hres
      · exact hk_setObs_plain h0 _ rfl hres
      · exact hk_setObs_plain h0 _ rfl hres

/-- the loop of `Dispatcher.reset` -/
theorem hk_fold_callReset : ∀ (l : List Nat) (w : FWorld),
    HK w (l.foldl (fun w id => w.callReset id) w) ∧ ∀ id ∈ l, FreshAt (l.foldl (fun w id => w.callReset id) w) id
  | [], w => ⟨HK.refl w, fun _ h => by cases h⟩
  | a :: t, w => by
    simp only [List.foldl_cons]
    obtain ⟨e1, r1⟩ := hk_callReset w a
    obtain ⟨e2, r2⟩ := hk_fold_callReset t (w.callReset a)
    refine ⟨e1.trans e2, ?_⟩
    intro id hid
    rcases List.mem_cons.1 hid with rfl | hid
    · exact freshAt_hk r1 e2
    · exact r2 id hid

/-! ## constructors -/

theorem hk_getIsCompleted (w : FWorld) (need : List FT) : HK w (w.getIsCompleted need).1 := by
  unfold FWorld.getIsCompleted
  cases hf : w.findObs .isCompleted need with
  | some id => exact HK.refl w
  | none =>
    simp only
    exact (hk_push w _ (by simp [FObs.zeroed])).trans (hk_isCompletedInit (RW.kindAt_push w _))

theorem hk_pushThen (w : FWorld) (base final : FObs) (hb : base.kind ≠ .history) (hk : final.kind = base.kind) :
    HK w ((w.push base).1.setObs (w.push base).2 final) := by
  refine (hk_push w base (fun h => absurd h hb)).trans (hk_setObs _ _ _ ?_)
  intro o0 h0
  rw [show (w.push base).2 = w.heap.length from rfl, FCtor.push_get_new] at h0
  cases h0
  exact ⟨hk, fun h => absurd h hb⟩

theorem hk_constructComposite (w : FWorld) (parts : Option (List Nat)) : HK w (w.constructComposite parts).1 := by
  unfold FWorld.constructComposite
  simp only
  exact hk_pushThen w _ _ (by simp) rfl

theorem hk_remainingCtor (w : FWorld) (base : FObs) (hk : base.kind = .remainingOps) :
    HK w ((w.push base).1.getUnscheduled.1.setObs (w.push base).2
      (remainingInit (w.push base).1.getUnscheduled.1.cfg
        ((w.push base).1.getUnscheduled.1.heap.getD (w.push base).1.getUnscheduled.2 default).deques base)) := by
  have e1 := hk_push w base (by rw [hk]; simp)
  have k1 : KindAt (w.push base).1 w.heap.length .remainingOps := hk ▸ RW.kindAt_push w base
  show HK w ((w.push base).1.getUnscheduled.1.setObs w.heap.length _)
  generalize (w.push base).1 = w1 at e1 k1
  obtain ⟨e2, _⟩ := hk_getUnscheduled w1
  obtain ⟨o2, ho2, hk2⟩ := kindAt_hk k1 e2
  exact e1.trans (e2.trans (hk_setObs_plain ho2 _ ((RW.remainingInit_kind _ _ _).trans (hk.trans hk2.symm))
    (by rw [hk2]; simp)))

theorem hk_construct (w : FWorld) (kind : FKind) (fts : Option (List FT)) : HK w (w.construct kind fts).1 := by
  cases kind <;> simp only [FWorld.construct]
  all_goals
    repeat' split
    all_goals first
      | exact HK.refl w
      | exact hk_push w _ (by simp [FObs.zeroed, Fresh])
      | exact hk_pushThen w _ _ (by simp [FObs.zeroed]) (RW.isReadyFeatures_kind _ _ _)
      | exact hk_pushThen w _ _ (by simp [FObs.zeroed]) (RW.estFeatures_kind _ _ _)
      | exact hk_pushThen w _ _ (by simp [FObs.zeroed]) (RW.durationInit_kind _ _ _)
      | exact hk_pushThen w _ _ (by simp [FObs.zeroed]) (RW.positionInit_kind _ _ _)
      | exact hk_remainingCtor w _ rfl
      | exact (hk_push w _ (by simp [FObs.zeroed])).trans (hk_isCompletedInit (RW.kindAt_push w _))

theorem hk_constructResidual (w : FWorld) (g : Graph) (rm rj : Bool) : HK w (w.constructResidual g rm rj).1 := by
  unfold FWorld.constructResidual
  by_cases h1 : (w.subs.any fun id => (w.heap[id]?.map (·.kind)) == some FKind.residual) = true
  · rw [if_pos h1]; exact HK.refl w
  · rw [if_neg h1]
    simp only
    generalize ((if rm then [FT.machines] else []) ++ (if rj then [FT.jobs] else [])) = need
    by_cases h2 : need.isEmpty = true
    · rw [if_pos h2]; exact hk_push w _ (by simp)
    · rw [if_neg h2]; exact (hk_getIsCompleted w need).trans (hk_push _ _ (by simp))

theorem hk_ctor (w : FWorld) (e : FEv) (he : e.isCtor = true) : HK w (w.step e) := by
  cases e with
  | disp j p m => cases he
  | reset => cases he
  | construct k fts => exact hk_construct w k fts
  | composite parts => exact hk_constructComposite w parts
  | residual b rm rj => exact hk_constructResidual w _ rm rj

/-! ## the world invariant -/

/-- what C10 says about a history observer, for the dispatcher state `s`: replaying the record on a fresh dispatcher gives
exactly `s`, and every prefix of the record is the schedule of the replay of that prefix -/
def HistOK (I : Instance) (s : State) (o : FObs) : Prop :=
  o.kind = .history → s = replay I (init I) (triples o.hist) ∧ Faith I o.hist

def HistInv (w : FWorld) : Prop := ∀ (k : Nat) (o : FObs), w.heap[k]? = some o → HistOK w.cfg.I w.s o

theorem histOK_fresh (I : Instance) (o : FObs) (h : Fresh o) : HistOK I (init I) o := by
  intro _
  have h' : o.hist = [] := h
  rw [h']
  exact ⟨rfl, faith_nil I⟩

theorem histinv_init (c : Cfg) : HistInv (FWorld.init c) := fun k o h => by simp [FWorld.init] at h

/-- constructors on a dispatcher in its initial state -/
theorem histinv_ctor_hk {w w' : FWorld} (h : HistInv w) (hs : w.s = init w.cfg.I) (e : HK w w') : HistInv w' := by
  intro k o' ho'
  rw [e.st.2, e.st.1]
  intro hr
  by_cases hlt : k < w.heap.length
  · obtain ⟨o, ho⟩ : ∃ o, w.heap[k]? = some o := ⟨w.heap[k], List.getElem?_eq_getElem hlt⟩
    obtain ⟨o2, g2, k2, r2⟩ := e.old k o ho
    rw [ho'] at g2; cases g2
    rcases r2 (k2 ▸ hr) with e1 | e1
    · rw [e1]; exact h k o ho (k2 ▸ hr)
    · rw [hs]; exact histOK_fresh _ _ e1 hr
  · have := e.new k o' (by omega) ho' hr
    rw [hs]; exact histOK_fresh _ _ this hr

/-- `Dispatcher.reset` -/
theorem histinv_reset {w : FWorld} (hrng : w.subs = List.range w.heap.length) : HistInv w.reset := by
  unfold FWorld.reset
  obtain ⟨e, hr⟩ := hk_fold_callReset w.subs { w with s := JS.init w.cfg.I }
  generalize w.subs.foldl (fun w id => w.callReset id) { w with s := JS.init w.cfg.I } = W at e hr
  have hs : W.s = init w.cfg.I := e.st.2
  have hc : W.cfg = w.cfg := e.st.1
  intro k o' ho'
  rw [hs, hc]
  intro hhist
  apply histOK_fresh _ _ _ hhist
  by_cases hlt : k < w.heap.length
  · have hmem : k ∈ w.subs := by rw [hrng]; exact List.mem_range.2 hlt
    exact hr k hmem o' ho' hhist
  · exact e.new k o' (by show w.heap.length ≤ k; omega) ho' hhist

/-! ## the dispatch -/

/-- one notification of a history observer across an accepted dispatch -/
theorem histOK_upd {c : Cfg} (hv : Valid c.I) {s s' : State} {j p : Nat} {m : Option Int} {mm : Nat} {op : Op}
    (hi : Inv c s) (hdr : dispatchReq c.I s j p m = .ok s') (hdd : dispatch c.I s j p mm = .ok s')
    (hx : newEntry s j p mm op ∈ s'.sched.flatten) (hp : List FObs) (o : FObs) (h : HistOK c.I s o)
    (hk : o.kind = .history) : HistOK c.I s' (updObs c s' (newEntry s j p mm op) hp o) := by
  have e : updObs c s' (newEntry s j p mm op) hp o = { o with hist := o.hist ++ [newEntry s j p mm op] } := by
    simp only [updObs, hk]
  rw [e]
  obtain ⟨h1, h2⟩ := h hk
  obtain ⟨_, _, _, _, hperm, _⟩ := accepted_entry hv hi hdr hx rfl rfl
  have hdd' : dispatch c.I (replay c.I (init c.I) (triples o.hist)) (newEntry s j p mm op).job
      (newEntry s j p mm op).pos (newEntry s j p mm op).machine = .ok s' := by
    rw [← h1]; exact hdd
  intro _
  refine ⟨?_, faith_snoc h2 hdd' (by rw [← h1]; exact hperm)⟩
  show s' = replay c.I (init c.I) (triples (o.hist ++ [newEntry s j p mm op]))
  rw [triples_append, replay_append]
  exact (replay_single hdd').symm

/-- an accepted or rejected dispatch request preserves the invariant -/
theorem histinv_dispatch {w : FWorld} (hv : Valid w.cfg.I) (hF : w.cfg.F = none ∨ PosDurI w.cfg.I) (hf : FInv w)
    (hrng : w.subs = List.range w.heap.length) (h : HistInv w) (j p : Nat) (m : Option Int) :
    HistInv (w.dispatch j p m).1 := by
  unfold FWorld.dispatch
  cases hdr : dispatchReq w.cfg.I w.s j p m with
  | error e => exact h
  | ok s' =>
    simp only
    obtain ⟨mm, op, hop, _, hdd⟩ := dispatchReq_ok hdr
    obtain ⟨op', hsp⟩ := dispatch_ok hdd
    have hop' := hsp.hop
    rw [hop] at hop'; cases hop'
    obtain ⟨evs, hevs⟩ := hf.reach
    have hi : Inv w.cfg w.s := by rw [hevs]; exact inv_run hv evs
    have hc : CInv w.cfg.I w.s := hi.cinv
    have hvop := hv j p op hop
    have hfind := find_new_entry hc hvop.2.2 hsp
    rw [hfind]
    simp only
    have hx : newEntry w.s j p mm op ∈ s'.sched.flatten := List.mem_of_find?_eq_some hfind
    have hrun : s' = run w.cfg (evs ++ [.disp j p m]) := by
      rw [run_snoc, ← hevs]
      simp only [stepEv, hdr]
    have hmono : ∀ r, r ∈ completedPure w.cfg w.s → r ∈ completedPure w.cfg s' := by
      intro r hr
      rw [hrun]
      rw [hevs] at hr
      exact C06_completed_mono w.cfg hv hF evs j p m r hr
    obtain ⟨f1, f2, f3, f4, _, f6⟩ :=
      fold_callUpdate_at (newEntry w.s j p mm op) w.subs { w with s := s' } hf.subs.nodup
    show HistInv (w.subs.foldl (fun (W : FWorld) id => W.callUpdate (newEntry w.s j p mm op) id) { w with s := s' })
    generalize w.subs.foldl (fun (W : FWorld) id => W.callUpdate (newEntry w.s j p mm op) id) { w with s := s' } = W
      at f1 f2 f3 f4 f6
    intro k o' ho'
    have hlt : k < w.heap.length := by
      have := (List.getElem?_eq_some_iff.1 ho').1
      rw [f4] at this; exact this
    obtain ⟨o, ho⟩ : ∃ o, w.heap[k]? = some o := ⟨w.heap[k], List.getElem?_eq_getElem hlt⟩
    have hmem : k ∈ w.subs := by rw [hrng]; exact List.mem_range.2 hlt
    obtain ⟨hp, hhp⟩ := f6 k hmem o ho
    rw [hhp] at ho'
    cases ho'
    rw [f2, f3]
    obtain ⟨kk, _, _⟩ := updObs_spec w.cfg hv hc hsp hmono hp o (hf.shape k o ho) (hf.val k hmem o ho)
    by_cases hr : o.kind = .history
    · exact histOK_upd hv hi hdr hdd hx hp o (h k o ho) hr
    · intro hk'
      exact absurd (kk ▸ hk') hr

/-! ## every reachable feature world -/

theorem trio_ctors {c : Cfg} (hv : Valid c.I) : ∀ (ctors : List FEv) (w : FWorld), w.cfg = c → FInv w → RW.RInv w →
    HistInv w → w.s = init c.I → (∀ e ∈ ctors, e.isCtor = true) → (∀ e ∈ ctors, e.NodupFts) →
    FInv (ctors.foldl FWorld.step w) ∧ RW.RInv (ctors.foldl FWorld.step w) ∧ HistInv (ctors.foldl FWorld.step w) ∧
      (ctors.foldl FWorld.step w).s = init c.I ∧ (ctors.foldl FWorld.step w).cfg = c
  | [], w, hc, h, hr, hq, hs, _, _ => ⟨h, hr, hq, hs, hc⟩
  | e :: t, w, hc, h, hr, hq, hs, hct, hnd => by
    simp only [List.foldl_cons]
    subst hc
    obtain ⟨h1, h2, h3⟩ := finv_ctor hv h hs e (hct e (List.mem_cons_self ..))
      (by intro k l he; have := hnd e (List.mem_cons_self ..); rw [he] at this; exact this)
    have hr1 := RW.rinv_ctor hv hr hs e (hct e (List.mem_cons_self ..))
    have hq1 := histinv_ctor_hk hq hs (hk_ctor w e (hct e (List.mem_cons_self ..)))
    exact trio_ctors (c := w.cfg) hv t _ h3 h1 hr1 hq1 h2
      (fun e' he' => hct e' (List.mem_cons_of_mem _ he')) (fun e' he' => hnd e' (List.mem_cons_of_mem _ he'))

theorem trio_events {c : Cfg} (hv : Valid c.I) (hF : c.F = none ∨ PosDurI c.I) : ∀ (evs : List FEv) (w : FWorld),
    w.cfg = c → FInv w → RW.RInv w → HistInv w → (∀ e ∈ evs, e.isCtor = false) →
    FInv (evs.foldl FWorld.step w) ∧ HistInv (evs.foldl FWorld.step w) ∧ (evs.foldl FWorld.step w).cfg = c
  | [], w, hc, h, _, hq, _ => ⟨h, hq, hc⟩
  | e :: t, w, hc, h, hr, hq, hev => by
    simp only [List.foldl_cons]
    subst hc
    have he := hev e (List.mem_cons_self ..)
    have hrest : ∀ e' ∈ t, e'.isCtor = false := fun e' he' => hev e' (List.mem_cons_of_mem _ he')
    cases e with
    | disp j p m =>
      have hcfg : (w.dispatch j p m).1.cfg = w.cfg := (dispatch_keeps w j p m).2.2.1
      exact trio_events (c := w.cfg) hv hF t _ hcfg (finv_dispatch hv hF h j p m) (RW.rinv_dispatch hv hF h hr j p m)
        (histinv_dispatch hv hF h hr.rng hq j p m) hrest
    | reset =>
      have hcfg : w.reset.cfg = w.cfg := (reset_keeps w).2.2.1
      exact trio_events (c := w.cfg) hv hF t _ hcfg (finv_reset hv h).1 (RW.rinv_reset hv hr) (histinv_reset hr.rng) hrest
    | construct k fts => simp [FEv.isCtor] at he
    | composite parts => simp [FEv.isCtor] at he
    | residual b rm rj => simp [FEv.isCtor] at he

/-- the value invariant and the history invariant in every reachable feature world -/
theorem trio_run (c : Cfg) (hv : Valid c.I) (hF : c.F = none ∨ PosDurI c.I) (ctors evs : List FEv)
    (hct : ∀ e ∈ ctors, e.isCtor = true) (hnd : ∀ e ∈ ctors, e.NodupFts) (hev : ∀ e ∈ evs, e.isCtor = false) :
    FInv (FWorld.run c (ctors ++ evs)) ∧ HistInv (FWorld.run c (ctors ++ evs)) ∧ (FWorld.run c (ctors ++ evs)).cfg = c := by
  unfold FWorld.run
  rw [List.foldl_append]
  obtain ⟨h0, hs0⟩ := finv_init c
  obtain ⟨h1, r1, q1, _, h3⟩ := trio_ctors hv ctors (FWorld.init c) rfl h0 (RW.rinv_init c) (histinv_init c) hs0 hct hnd
  exact trio_events hv hF evs _ h3 h1 r1 q1 hev

end HistW

/-- **C10 / C20 on the whole feature world.**  In every reachable feature world a subscribed `HistoryObserver` holds every
entry of the current schedule exactly once; replaying its record on a fresh dispatcher rebuilds the current dispatcher state
(schedule and bookkeeping: `C10_world_history_state`), and the replay of the first `k` recorded entries schedules exactly
these `k` entries. -/
theorem C10_world_history_state (c : Cfg) (hv : Valid c.I) (hF : c.F = none ∨ PosDurI c.I) (w : FWorld) (hw : Reached c w)
    (id : Nat) (o : FObs) (ho : w.heap[id]? = some o) (hk : o.kind = .history) :
    w.s = replay c.I (init c.I) (triples o.hist) ∧ HistW.Faith c.I o.hist := by
  obtain ⟨ctors, evs, hct, hnd, hev, rfl⟩ := hw.ex
  obtain ⟨_, hq, hc⟩ := HistW.trio_run c hv hF ctors evs hct hnd hev
  have := hq id o ho hk
  rw [hc] at this
  exact this

theorem C10_world_history (c : Cfg) (hv : Valid c.I) (hF : c.F = none ∨ PosDurI c.I) (w : FWorld) (hw : Reached c w)
    (id : Nat) (hid : id ∈ w.subs) (o : FObs) (ho : w.heap[id]? = some o) (hk : o.kind = .history) :
    -- every entry of the schedule is recorded exactly once, the record is duplicate free …
    o.hist.Perm w.s.sched.flatten ∧
    -- … and replaying the record on a fresh dispatcher rebuilds the current schedule, prefix by prefix
    (replay c.I (init c.I) (triples o.hist)).sched = w.s.sched ∧
    ∀ k, k ≤ o.hist.length →
      (replay c.I (init c.I) ((triples o.hist).take k)).sched.flatten.Perm (o.hist.take k) := by
  have _ := hid
  obtain ⟨h1, h2⟩ := C10_world_history_state c hv hF w hw id o ho hk
  refine ⟨?_, by rw [← h1], h2⟩
  have h0 := h2 o.hist.length (Nat.le_refl _)
  rw [List.take_of_length_le (by rw [triples_length]; exact Nat.le_refl _), List.take_length, ← h1] at h0
  exact h0.symm

/-! non-vacuity: a reachable world with a history observer between other observers (helpers created lazily; the second
history observer is refused), a reset in the middle of the history, rejected requests -/
set_option maxRecDepth 100000 in
example :
    let w := FWorld.run { I := c11Instance }
      ([.construct .isCompleted none, .construct .history none, .construct .idleReward none,
        .construct .remainingOps none, .construct .history none] ++
       [.disp 0 0 (some 1), .disp 1 0 none, .reset, .disp 1 0 (some 1), .disp 1 1 none, .disp 0 0 (some 0), .disp 1 2 none,
        .disp 0 1 none, .disp 0 1 none])
    3 ∈ w.subs ∧
    (w.heap[3]?.map fun o => (o.kind, o.hist)) = some (.history,
      [⟨1, 0, 1, 0, 4⟩, ⟨1, 1, 0, 4, 1⟩, ⟨0, 0, 0, 5, 3⟩, ⟨1, 2, 1, 5, 0⟩, ⟨0, 1, 1, 8, 2⟩]) ∧
    w.s.sched = [[⟨1, 1, 0, 4, 1⟩, ⟨0, 0, 0, 5, 3⟩], [⟨1, 0, 1, 0, 4⟩, ⟨1, 2, 1, 5, 0⟩, ⟨0, 1, 1, 8, 2⟩]] := by decide

end JS

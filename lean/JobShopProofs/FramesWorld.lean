import JobShopProofs.HistoryWorld
/-!
# C20 on the whole feature world: the frames of an animation built from the recorded history

`C20_world_frames`: in every reachable feature world, the history a subscribed `HistoryObserver` recorded (what
`GanttChartCreator.create_gif/create_video` hand to `create_gantt_chart_frames`), replayed prefix by prefix and drawn by
`plot_gantt_chart` (`bars`), saved as `frame_<k>` and loaded back by the `(len(name), name)` sort: the `(k+1)`-th image
loaded is frame `k+1`, and it shows exactly the first `k+1` recorded operations.

Route: the replay of any list of triples from the fresh dispatcher satisfies the core invariant `CInv` (`cinv_replay`), so
every entry sits in the list of its own machine and `bars` is "one bar per entry of `sched.flatten`" (`bars_of_inList`);
`HistW.Faith` (from `C10_world_history_state`) turns membership in the replayed schedule into membership in the first
`k+1` recorded entries.
-/
namespace JS

/-- one replayed dispatch (accepted or rejected) preserves the core invariant -/
theorem cinv_replay_step {I : Instance} (hv : Valid I) {s : State} (hc : CInv I s) (r : Nat × Nat × Nat) :
    CInv I (match dispatch I s r.1 r.2.1 r.2.2 with | .ok s' => s' | .error _ => s) := by
  cases hd : dispatch I s r.1 r.2.1 r.2.2 with
  | error e => exact hc
  | ok s' =>
    obtain ⟨op, hsp⟩ := dispatch_ok hd
    exact cinv_dispatch (hv _ _ op hsp.hop).2.2 hc hsp

/-- the replay of any recorded history preserves the core invariant -/
theorem cinv_replay {I : Instance} (hv : Valid I) : ∀ (l : List (Nat × Nat × Nat)) (s : State), CInv I s →
    CInv I (replay I s l)
  | [], _, hc => hc
  | r :: t, s, hc => by
    show CInv I (replay I (match dispatch I s r.1 r.2.1 r.2.2 with | .ok s' => s' | .error _ => s) t)
    exact cinv_replay hv t _ (cinv_replay_step hv hc r)

/-- **bars of a state whose entries sit in their own machine's list**: exactly one bar per entry of the schedule, in the
row of the machine the operation was assigned to -/
theorem bars_of_inList (s : State) (hin : ∀ m, ∀ x ∈ s.sched.getD m [], x.machine = m) (b : Bar) :
    b ∈ bars s ↔ ∃ x ∈ s.sched.flatten, b = ⟨1 + 10 * x.machine, x.start, x.dur, x.job⟩ := by
  rw [(C20_bars s).1]
  simp only [List.mem_flatMap, List.mem_map, List.mem_flatten, Prod.exists]
  constructor
  · rintro ⟨ms, mi, hmem, x, hx, rfl⟩
    have hget := List.mem_zipIdx_iff_getElem?.1 hmem
    have hxm : x.machine = mi := hin mi x (by simp [List.getD_eq_getElem?_getD, hget, hx])
    exact ⟨x, ⟨ms, List.mem_of_getElem? hget, hx⟩, by rw [hxm]⟩
  · rintro ⟨x, ⟨ms, hms, hx⟩, rfl⟩
    obtain ⟨mi, hget⟩ := List.getElem?_of_mem hms
    have hxm : x.machine = mi := hin mi x (by simp [List.getD_eq_getElem?_getD, hget, hx])
    exact ⟨ms, mi, List.mem_zipIdx_iff_getElem?.2 hget, x, hx, by rw [hxm]⟩

/-- the frame drawn from the first `k` entries of a faithful record shows exactly these `k` entries -/
theorem bars_replay_faith {I : Instance} (hv : Valid I) {l : List SOp} (hf : HistW.Faith I l) (k : Nat)
    (hk : k ≤ l.length) (b : Bar) :
    b ∈ bars (replay I (init I) ((triples l).take k)) ↔
      ∃ x ∈ l.take k, b = ⟨1 + 10 * x.machine, x.start, x.dur, x.job⟩ := by
  rw [bars_of_inList _ (cinv_replay hv _ _ (cinv_init I)).inList]
  have hp := hf k hk
  constructor
  · rintro ⟨x, hx, rfl⟩; exact ⟨x, hp.mem_iff.1 hx, rfl⟩
  · rintro ⟨x, hx, rfl⟩; exact ⟨x, hp.mem_iff.2 hx, rfl⟩

/-- the number of bars of the frame drawn from the first `k` recorded entries is `k` -/
theorem bars_replay_faith_length {I : Instance} {l : List SOp} (hf : HistW.Faith I l) (k : Nat)
    (hk : k ≤ l.length) : (bars (replay I (init I) ((triples l).take k))).length = k := by
  have hp := (hf k hk).length_eq
  rw [List.length_take, Nat.min_eq_left hk, List.length_flatten] at hp
  rw [(C20_bars _).2, numScheduled]
  exact hp

/-- **C20 on the whole feature world.**  An animation built from the history a subscribed `HistoryObserver` recorded has one
frame per recorded operation; whatever order the directory listing returns the frame files in, the `(k+1)`-th image loaded
is frame `k+1`, and it shows exactly the first `k+1` recorded operations: one bar per operation, on its machine's row, from
its start, as long as its duration, coloured by its job. -/
theorem C20_world_frames (c : Cfg) (hv : Valid c.I) (hF : c.F = none ∨ PosDurI c.I) (w : FWorld) (hw : Reached c w)
    (id : Nat) (hid : id ∈ w.subs) (o : FObs) (ho : w.heap[id]? = some o) (hk : o.kind = .history)
    (listing : List Nat) (hl : listing.Perm ((List.range o.hist.length).map (· + 1))) (k : Nat) (hk' : k < o.hist.length) :
    (loadOrder listing)[k]? = some (k + 1) ∧
    ∀ b : Bar, b ∈ bars (replay c.I (init c.I) ((triples o.hist).take (k + 1))) ↔
      ∃ x ∈ o.hist.take (k + 1), b = ⟨1 + 10 * x.machine, x.start, x.dur, x.job⟩ := by
  have _ := hid
  obtain ⟨_, hf⟩ := C10_world_history_state c hv hF w hw id o ho hk
  refine ⟨?_, fun b => bars_replay_faith hv hf (k + 1) (by omega) b⟩
  rw [C20_load_order o.hist.length listing hl]
  simp [hk']

/-- the frame also has exactly `k+1` bars (so no bar is drawn twice) -/
theorem C20_world_frames_count (c : Cfg) (hv : Valid c.I) (hF : c.F = none ∨ PosDurI c.I) (w : FWorld) (hw : Reached c w)
    (id : Nat) (o : FObs) (ho : w.heap[id]? = some o) (hk : o.kind = .history) (k : Nat) (hk' : k < o.hist.length) :
    (bars (replay c.I (init c.I) ((triples o.hist).take (k + 1)))).length = k + 1 := by
  obtain ⟨_, hf⟩ := C10_world_history_state c hv hF w hw id o ho hk
  exact bars_replay_faith_length hf (k + 1) (by omega)

end JS

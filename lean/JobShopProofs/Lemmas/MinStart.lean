import JobShopModel.Events
/-!
# `min_start_time`: the minimum is attained and is a lower bound
-/
namespace JS

theorem foldl_min_spec : ∀ (l : List Int) (a : Int),
    (l.foldl min a = a ∨ l.foldl min a ∈ l) ∧ l.foldl min a ≤ a ∧ ∀ b ∈ l, l.foldl min a ≤ b
  | [], a => by simp
  | x :: t, a => by
    obtain ⟨h1, h2, h3⟩ := foldl_min_spec t (min a x)
    simp only [List.foldl_cons, List.mem_cons]
    refine ⟨?_, by omega, ?_⟩
    · rcases h1 with h | h
      · rw [h]
        by_cases hax : a ≤ x
        · left; omega
        · right; left; omega
      · right; right; exact h
    · rintro b (rfl | hb)
      · omega
      · exact h3 b hb

theorem min?_spec (l : List Int) (h : l ≠ []) : ∃ m, l.min? = some m ∧ m ∈ l ∧ ∀ a ∈ l, m ≤ a := by
  cases l with
  | nil => exact absurd rfl h
  | cons a t =>
    obtain ⟨h1, h2, h3⟩ := foldl_min_spec t a
    refine ⟨t.foldl min a, List.min?_cons', ?_, ?_⟩
    · rcases h1 with h | h
      · rw [h]; simp
      · exact List.mem_cons_of_mem _ h
    · rintro b hb
      rcases List.mem_cons.1 hb with rfl | hb
      · exact h2
      · exact h3 b hb

/-- the operations of `L` exist in the instance and have a machine -/
def RefsOK (I : Instance) (L : List OpRef) : Prop :=
  ∀ r ∈ L, ∃ op, getOp I r.1 r.2 = some op ∧ op.machines ≠ []

theorem mem_startsOf (I : Instance) (s : State) (L : List OpRef) (v : Int) :
    v ∈ startsOf I s L ↔ ∃ r ∈ L, ∃ op, getOp I r.1 r.2 = some op ∧ ∃ m ∈ op.machines, startTime s r.1 m = v := by
  unfold startsOf
  simp only [List.mem_flatMap]
  constructor
  · rintro ⟨r, hr, hv⟩
    cases hop : getOp I r.1 r.2 with
    | none => simp [hop] at hv
    | some op =>
      simp only [hop, List.mem_map] at hv
      obtain ⟨m, hm, rfl⟩ := hv
      exact ⟨r, hr, op, hop, m, hm, rfl⟩
  · rintro ⟨r, hr, op, hop, m, hm, rfl⟩
    exact ⟨r, hr, by simp only [hop, List.mem_map]; exact ⟨m, hm, rfl⟩⟩

/-- `min_start_time(L)` for a non-empty list of valid operations: attained by some `(op, machine)` of `L`
and a lower bound of every `start_time(op, machine)`. -/
theorem minStart_spec (I : Instance) (s : State) (L : List OpRef) (hL : L ≠ []) (hok : RefsOK I L) :
    (∃ r ∈ L, ∃ op, getOp I r.1 r.2 = some op ∧ ∃ m ∈ op.machines, startTime s r.1 m = minStart I s L) ∧
    (∀ r ∈ L, ∀ op, getOp I r.1 r.2 = some op → ∀ m ∈ op.machines, minStart I s L ≤ startTime s r.1 m) := by
  have hne : startsOf I s L ≠ [] := by
    cases L with
    | nil => exact absurd rfl hL
    | cons r t =>
      obtain ⟨op, hop, hm⟩ := hok r (by simp)
      obtain ⟨m, hm'⟩ := List.exists_mem_of_ne_nil _ hm
      exact List.ne_nil_of_mem ((mem_startsOf I s _ _).2 ⟨r, by simp, op, hop, m, hm', rfl⟩)
  obtain ⟨v, hv, hmem, hle⟩ := min?_spec _ hne
  have hms : minStart I s L = v := by
    cases L with
    | nil => exact absurd rfl hL
    | cons r t => simp [minStart, hv]
  rw [hms]
  refine ⟨(mem_startsOf I s L v).1 hmem, ?_⟩
  intro r hr op hop m hm
  exact hle _ ((mem_startsOf I s L _).2 ⟨r, hr, op, hop, m, hm, rfl⟩)

theorem minStart_nil (I : Instance) (s : State) : minStart I s [] = makespan s := rfl

/-- `earliest_start_time(op)` is the smallest `start_time(op, m)` over the eligible machines. -/
theorem earliestStart_spec (I : Instance) (s : State) (r : OpRef) (op : Op) (hop : getOp I r.1 r.2 = some op)
    (hm : op.machines ≠ []) :
    (∃ m ∈ op.machines, startTime s r.1 m = earliestStart I s r) ∧
    (∀ m ∈ op.machines, earliestStart I s r ≤ startTime s r.1 m) := by
  have hne : (op.machines.map fun m => s.machNext.getD m 0) ≠ [] := by simpa using hm
  obtain ⟨v, hv, hmem, hle⟩ := min?_spec _ hne
  simp only [earliestStart, hop, hv, Option.getD_some, startTime]
  simp only [List.mem_map] at hmem
  obtain ⟨m, hmm, rfl⟩ := hmem
  refine ⟨⟨m, hmm, rfl⟩, ?_⟩
  intro m' hm'
  have := hle _ (List.mem_map.2 ⟨m', hm', rfl⟩)
  omega

end JS

import JobShopProofs.Lemmas.MinStart
import JobShopProofs.Reach
/-!
# Facts about the four built-in ready-operation filters
-/
namespace JS

/-! ## every filter returns a sub-list of its input -/

theorem singleton_sublist_of_mem {α} {a : α} {l : List α} (h : a ∈ l) : [a].Sublist l := by
  simpa using h

theorem domLoop_sublist (I : Instance) (st : Nat → Nat → Int) (me : Nat → Option Int) :
    ∀ (rest acc : List OpRef), (domLoop I st me rest acc).Sublist (acc.reverse ++ rest)
  | [], acc => by simp [domLoop]
  | r :: rest, acc => by
    unfold domLoop
    have hskip : (acc.reverse ++ rest).Sublist (acc.reverse ++ r :: rest) :=
      List.Sublist.append_left (List.sublist_cons_self r rest) _
    cases hop : getOp I r.1 r.2 with
    | none => exact (domLoop_sublist I st me rest acc).trans hskip
    | some op =>
      simp only
      split
      · exact singleton_sublist_of_mem (by simp)
      · split
        · have := domLoop_sublist I st me rest (r :: acc)
          simpa using this
        · exact (domLoop_sublist I st me rest acc).trans hskip

theorem applyFilter_sublist (I : Instance) (s : State) (f : FilterKind) (L : List OpRef) :
    (applyFilter I s f L).Sublist L := by
  cases f with
  | dominated => simpa [applyFilter, filterDominated] using domLoop_sublist I (startTime s) (minEnd I s L) L []
  | nonImmediateMachines => exact List.filter_sublist
  | nonIdleMachines => exact List.filter_sublist
  | nonImmediateOps => exact List.filter_sublist

theorem applyFilters_sublist (I : Instance) (s : State) : ∀ (fs : List FilterKind) (L : List OpRef),
    (applyFilters I s fs L).Sublist L
  | [], L => by simp [applyFilters]
  | f :: fs, L => by
    have h1 := applyFilter_sublist I s f L
    have h2 := applyFilters_sublist I s fs (applyFilter I s f L)
    simp only [applyFilters, List.foldl_cons] at h2 ⊢
    exact h2.trans h1

theorem RefsOK.sublist {I : Instance} {L L' : List OpRef} (h : RefsOK I L) (hs : L'.Sublist L) : RefsOK I L' :=
  fun r hr => h r (hs.subset hr)

/-! ## the dominated filter -/

/-- the zero-duration test of the loop -/
def zeroDur (I : Instance) (r : OpRef) : Bool :=
  match getOp I r.1 r.2 with | some op => op.dur == 0 | none => false

/-- the keep-test of the loop: starts on some eligible machine before the earliest completion there -/
def critDom (I : Instance) (st : Nat → Nat → Int) (me : Nat → Option Int) (r : OpRef) : Bool :=
  match getOp I r.1 r.2 with
  | some op => op.machines.any (fun m => ltOpt (st r.1 m) (me m))
  | none => false

/-- The loop of `filter_dominated_operations`, in closed form: if the list contains a zero-duration
operation the result is the first such operation alone; otherwise it is the filter by `critDom`. -/
theorem domLoop_eq (I : Instance) (st : Nat → Nat → Int) (me : Nat → Option Int) :
    ∀ (rest acc : List OpRef), domLoop I st me rest acc =
      match rest.find? (zeroDur I) with
      | some r => [r]
      | none => acc.reverse ++ rest.filter (critDom I st me)
  | [], acc => by simp [domLoop]
  | r :: rest, acc => by
    unfold domLoop
    cases hop : getOp I r.1 r.2 with
    | none =>
      have hz : zeroDur I r = false := by simp [zeroDur, hop]
      have hc : critDom I st me r = false := by simp [critDom, hop]
      simp only [List.find?_cons, hz, List.filter_cons, hc]
      exact domLoop_eq I st me rest acc
    | some op =>
      simp only
      by_cases hd : (op.dur == 0) = true
      · have hz : zeroDur I r = true := by simp [zeroDur, hop, hd]
        simp [hd, List.find?_cons, hz]
      · have hz : zeroDur I r = false := by simp [zeroDur, hop, hd]
        simp only [hd, Bool.false_eq_true, ↓reduceIte, List.find?_cons, hz]
        by_cases hk : op.machines.any (fun m => ltOpt (st r.1 m) (me m)) = true
        · have hc : critDom I st me r = true := by simp only [critDom, hop, hk]
          rw [if_pos hk, domLoop_eq I st me rest (r :: acc)]
          simp only [List.filter_cons, hc, ↓reduceIte, List.reverse_cons, List.append_assoc, List.singleton_append]
        · have hc : critDom I st me r = false := by simpa [critDom, hop] using hk
          rw [if_neg hk, domLoop_eq I st me rest acc]
          simp only [List.filter_cons, hc, Bool.false_eq_true, ↓reduceIte]

theorem filterDominated_eq (I : Instance) (s : State) (L : List OpRef) :
    filterDominated I s L =
      match L.find? (zeroDur I) with
      | some r => [r]
      | none => L.filter (critDom I (startTime s) (minEnd I s L)) := by
  unfold filterDominated
  rw [domLoop_eq]; simp

/-- meaning of `start < min_machine_end_times[m]` -/
theorem ltOpt_minEnd (I : Instance) (s : State) (L : List OpRef) (m : Nat) (a : Int) :
    ltOpt a (minEnd I s L m) = true ↔
      ∀ r ∈ L, ∀ op, getOp I r.1 r.2 = some op → m ∈ op.machines → a < startTime s r.1 m + op.dur := by
  unfold minEnd
  generalize hl : (L.filterMap fun r => match getOp I r.1 r.2 with
    | some op => if m ∈ op.machines then some (startTime s r.1 m + op.dur) else none
    | none => none) = l
  have hmem : ∀ v, v ∈ l ↔ ∃ r ∈ L, ∃ op, getOp I r.1 r.2 = some op ∧ m ∈ op.machines ∧
      startTime s r.1 m + op.dur = v := by
    intro v
    rw [← hl]
    simp only [List.mem_filterMap]
    constructor
    · rintro ⟨r, hr, hv⟩
      cases hop : getOp I r.1 r.2 with
      | none => simp [hop] at hv
      | some op =>
        simp only [hop] at hv
        by_cases hm : m ∈ op.machines
        · simp only [hm, ↓reduceIte, Option.some.injEq] at hv
          exact ⟨r, hr, op, hop, hm, hv⟩
        · simp [hm] at hv
    · rintro ⟨r, hr, op, hop, hm, rfl⟩
      exact ⟨r, hr, by simp [hop, hm]⟩
  cases hl' : l with
  | nil =>
    simp only [List.min?_nil, ltOpt, true_iff]
    intro r hr op hop hm
    have : startTime s r.1 m + op.dur ∈ l := (hmem _).2 ⟨r, hr, op, hop, hm, rfl⟩
    rw [hl'] at this; cases this
  | cons x t =>
    obtain ⟨v, hv, hvm, hle⟩ := min?_spec l (by rw [hl']; simp)
    rw [← hl', hv]
    simp only [ltOpt, decide_eq_true_eq]
    constructor
    · intro h r hr op hop hm
      have := hle _ ((hmem _).2 ⟨r, hr, op, hop, hm, rfl⟩)
      omega
    · intro h
      obtain ⟨r, hr, op, hop, hm, he⟩ := (hmem v).1 hvm
      have := h r hr op hop hm
      omega

/-- the documented criterion of the dominated filter, for one operation -/
def NotDominated (I : Instance) (s : State) (L : List OpRef) (r : OpRef) : Prop :=
  ∃ op, getOp I r.1 r.2 = some op ∧ ∃ m ∈ op.machines,
    ∀ r' ∈ L, ∀ op', getOp I r'.1 r'.2 = some op' → m ∈ op'.machines →
      startTime s r.1 m < startTime s r'.1 m + op'.dur

theorem critDom_iff (I : Instance) (s : State) (L : List OpRef) (r : OpRef) :
    critDom I (startTime s) (minEnd I s L) r = true ↔ NotDominated I s L r := by
  unfold critDom NotDominated
  cases hop : getOp I r.1 r.2 with
  | none => simp
  | some op =>
    simp only [List.any_eq_true, Option.some.injEq, exists_eq_left']
    constructor
    · rintro ⟨m, hm, h⟩; exact ⟨m, hm, (ltOpt_minEnd I s L m _).1 h⟩
    · rintro ⟨m, hm, h⟩; exact ⟨m, hm, (ltOpt_minEnd I s L m _).2 h⟩

/-! ## busy machines -/

theorem mem_takeWhile_desc (t : Int) : ∀ (r : List SOp), r.Pairwise (fun a b => b.end_ ≤ a.start) →
    (∀ x ∈ r, 0 ≤ x.dur) → ∀ x, (x ∈ r.takeWhile (fun x => !decide (x.end_ ≤ t)) ↔ x ∈ r ∧ t < x.end_)
  | [], _, _, x => by simp
  | a :: r, hp, hd, x => by
    rw [List.pairwise_cons] at hp
    have ih := mem_takeWhile_desc t r hp.2 (fun y hy => hd y (List.mem_cons_of_mem _ hy)) x
    by_cases ha : a.end_ ≤ t
    · simp only [List.takeWhile_cons, ha, decide_true, Bool.not_true, Bool.false_eq_true, ↓reduceIte,
        List.not_mem_nil, List.mem_cons, false_iff, not_and, Int.not_lt]
      rintro (rfl | hx)
      · exact ha
      · have h1 := hp.1 x hx
        have h2 := hd a (by simp)
        simp only [SOp.end_] at *; omega
    · simp only [List.takeWhile_cons, ha, decide_false, Bool.not_false, ↓reduceIte, List.mem_cons, ih]
      constructor
      · rintro (rfl | h)
        · exact ⟨Or.inl rfl, by omega⟩
        · exact ⟨Or.inr h.1, h.2⟩
      · rintro ⟨rfl | h, h2⟩
        · left; rfl
        · right; exact ⟨h, h2⟩

theorem cinv_dur_nonneg {I : Instance} {s : State} (h : CInv I s) : ∀ x ∈ s.sched.flatten, 0 ≤ x.dur := by
  obtain ⟨a, hr, _, ha2⟩ := h.abs
  intro x hx; exact ha2.dur_nonneg x (hr.sched.mem_iff.2 hx)

theorem cinv_end_le_machNext {I : Instance} {s : State} (h : CInv I s) (m : Nat) :
    ∀ x ∈ s.sched.getD m [], x.end_ ≤ s.machNext.getD m 0 := by
  obtain ⟨a, hr, ha, _⟩ := h.abs
  intro x hx
  have := ha.mN_ge x (hr.sched.mem_iff.2 (mem_getD_flatten _ _ _ hx))
  rw [h.inList m x hx, hr.mN] at this
  exact this

/-- In a reachable state, machine `m` is reported busy at time `t` exactly when some operation listed on
`m` ends after `t` (the backwards scan with `break` is exact because the lists are time-ordered). -/
theorem mem_nonIdleMachines {I : Instance} {s : State} (h : CInv I s) (t : Int) (m : Nat) :
    m ∈ nonIdleMachines s t ↔ ∃ x ∈ s.sched.getD m [], t < x.end_ := by
  unfold nonIdleMachines
  simp only [List.mem_flatMap, List.mem_map]
  constructor
  · rintro ⟨ms, hms, x, hx, rfl⟩
    obtain ⟨k, hk, rfl⟩ := List.mem_iff_getElem.1 hms
    have hget : s.sched.getD k [] = s.sched[k] := by
      simp [List.getD_eq_getElem?_getD, List.getElem?_eq_getElem hk]
    have hord := h.ordered k
    rw [hget] at hord
    have := (mem_takeWhile_desc t s.sched[k].reverse (List.pairwise_reverse.2 hord)
      (fun y hy => cinv_dur_nonneg h y (List.mem_flatten.2 ⟨_, hms, List.mem_reverse.1 hy⟩)) x).1 hx
    have hxk : x ∈ s.sched.getD k [] := by rw [hget]; exact List.mem_reverse.1 this.1
    rw [h.inList k x hxk]
    exact ⟨x, hxk, this.2⟩
  · rintro ⟨x, hx, ht⟩
    have hne : s.sched.getD m [] ≠ [] := List.ne_nil_of_mem hx
    have hlt : m < s.sched.length := by
      apply Classical.byContradiction; intro hn
      have : s.sched[m]? = none := List.getElem?_eq_none (by omega)
      simp [List.getD_eq_getElem?_getD, this] at hne
    have hget : s.sched.getD m [] = s.sched[m] := by
      simp [List.getD_eq_getElem?_getD, List.getElem?_eq_getElem hlt]
    have hord := h.ordered m
    rw [hget] at hord hx
    refine ⟨s.sched[m], List.getElem_mem _, x, ?_, ?_⟩
    · exact (mem_takeWhile_desc t s.sched[m].reverse (List.pairwise_reverse.2 hord)
        (fun y hy => cinv_dur_nonneg h y (List.mem_flatten.2 ⟨_, List.getElem_mem _, List.mem_reverse.1 hy⟩)) x).2
        ⟨List.mem_reverse.2 hx, ht⟩
    · have := h.inList m x (by rw [hget]; exact hx); exact this

/-! ## every filter keeps an operation that attains the minimum start time -/

/-- `r` (with operation `op`) can start on its machine `m` at `min_start_time(L)` -/
structure AttainsMin (I : Instance) (s : State) (L : List OpRef) (r : OpRef) (op : Op) (m : Nat) : Prop where
  mem : r ∈ L
  hop : getOp I r.1 r.2 = some op
  hm : m ∈ op.machines
  eq : startTime s r.1 m = minStart I s L

theorem exists_attainsMin (I : Instance) (s : State) (L : List OpRef) (hL : L ≠ []) (hok : RefsOK I L) :
    ∃ r op m, AttainsMin I s L r op m := by
  obtain ⟨⟨r, hr, op, hop, m, hm, he⟩, _⟩ := minStart_spec I s L hL hok
  exact ⟨r, op, m, hr, hop, hm, he⟩

theorem nonIdle_keeps {I : Instance} {s : State} (hc : CInv I s) {L : List OpRef} {r : OpRef} {op : Op} {m : Nat}
    (ha : AttainsMin I s L r op m) : r ∈ filterNonIdle I s L := by
  unfold filterNonIdle
  simp only [List.mem_filter, ha.mem, ha.hop, true_and, Bool.not_eq_true', List.all_eq_false,
    List.contains_eq_mem, decide_eq_true_eq]
  refine ⟨m, ha.hm, ?_⟩
  intro hbusy
  obtain ⟨x, hx, ht⟩ := (mem_nonIdleMachines hc _ m).1 hbusy
  have h1 := cinv_end_le_machNext hc m x hx
  have h2 := ha.eq
  simp only [startTime] at h2
  omega

theorem nio_keeps {I : Instance} {s : State} {L : List OpRef} (hL : L ≠ []) (hok : RefsOK I L)
    {r : OpRef} {op : Op} {m : Nat} (ha : AttainsMin I s L r op m) : r ∈ filterNonImmediateOps I s L := by
  unfold filterNonImmediateOps
  simp only [List.mem_filter, ha.mem, true_and, beq_iff_eq]
  obtain ⟨op', hop', hne⟩ := hok r ha.mem
  rw [ha.hop] at hop'; cases hop'
  obtain ⟨⟨m', hm', he⟩, hle⟩ := earliestStart_spec I s r op ha.hop hne
  have h1 := hle m ha.hm
  have h2 := (minStart_spec I s L hL hok).2 r ha.mem op ha.hop m' hm'
  have h3 := ha.eq
  omega

theorem nim_keeps {I : Instance} {s : State} {L : List OpRef} {r : OpRef} {op : Op} {m : Nat}
    (ha : AttainsMin I s L r op m) : r ∈ filterNonImmediateMachines I s L := by
  unfold filterNonImmediateMachines
  simp only [List.mem_filter, ha.mem, ha.hop, true_and, List.any_eq_true]
  refine ⟨m, ha.hm, ?_⟩
  unfold immediateMachine
  simp only [List.any_eq_true]
  exact ⟨r, ha.mem, by simp [ha.hop, ha.hm, ha.eq]⟩

/-- all operations of `L` have a positive duration -/
def PosDurL (I : Instance) (L : List OpRef) : Prop := ∀ r ∈ L, ∀ op, getOp I r.1 r.2 = some op → 0 < op.dur

theorem find?_zeroDur_none {I : Instance} {L : List OpRef} (hp : PosDurL I L) : L.find? (zeroDur I) = none := by
  rw [List.find?_eq_none]
  intro r hr
  unfold zeroDur
  cases hop : getOp I r.1 r.2 with
  | none => simp
  | some op => have := hp r hr op hop; simp; omega

theorem dom_keeps {I : Instance} {s : State} {L : List OpRef} (hL : L ≠ []) (hok : RefsOK I L) (hp : PosDurL I L)
    {r : OpRef} {op : Op} {m : Nat} (ha : AttainsMin I s L r op m) : r ∈ filterDominated I s L := by
  rw [filterDominated_eq, find?_zeroDur_none hp]
  simp only [List.mem_filter, ha.mem, true_and]
  rw [critDom_iff]
  refine ⟨op, ha.hop, m, ha.hm, ?_⟩
  intro r' hr' op' hop' hm'
  have h1 := (minStart_spec I s L hL hok).2 r' hr' op' hop' m hm'
  have h2 := hp r' hr' op' hop'
  have h3 := ha.eq
  omega

/-- a sub-list that still contains an operation attaining the minimum has the same minimum start time -/
theorem minStart_eq_of_keeps {I : Instance} {s : State} {L L' : List OpRef} (hL : L ≠ []) (hok : RefsOK I L)
    (hsub : L'.Sublist L) {r : OpRef} {op : Op} {m : Nat} (ha : AttainsMin I s L r op m) (hr : r ∈ L') :
    minStart I s L' = minStart I s L := by
  have hL' : L' ≠ [] := List.ne_nil_of_mem hr
  have hok' := hok.sublist hsub
  obtain ⟨⟨r2, hr2, op2, hop2, m2, hm2, he2⟩, hle'⟩ := minStart_spec I s L' hL' hok'
  have h1 := hle' r hr op ha.hop m ha.hm
  have h2 := (minStart_spec I s L hL hok).2 r2 (hsub.subset hr2) op2 hop2 m2 hm2
  have h3 := ha.eq
  omega

/-- dominated filter, zero durations allowed: never empty on a non-empty valid list -/
theorem dom_nonempty {I : Instance} (hv : Valid I) {s : State} {L : List OpRef} (hL : L ≠ []) (hok : RefsOK I L) :
    filterDominated I s L ≠ [] := by
  cases hf : L.find? (zeroDur I) with
  | some r => rw [filterDominated_eq, hf]; simp
  | none =>
    have hp : PosDurL I L := by
      intro r hr op hop
      have hz := List.find?_eq_none.1 hf r hr
      simp only [zeroDur, hop, beq_iff_eq] at hz
      have := (hv r.1 r.2 op hop).2.2
      omega
    obtain ⟨r, op, m, ha⟩ := exists_attainsMin I s L hL hok
    exact List.ne_nil_of_mem (dom_keeps hL hok hp ha)

theorem applyFilter_nonempty {I : Instance} (hv : Valid I) {s : State} (hc : CInv I s) (f : FilterKind)
    {L : List OpRef} (hL : L ≠ []) (hok : RefsOK I L) : applyFilter I s f L ≠ [] := by
  obtain ⟨r, op, m, ha⟩ := exists_attainsMin I s L hL hok
  cases f with
  | dominated => exact dom_nonempty hv hL hok
  | nonImmediateMachines => exact List.ne_nil_of_mem (nim_keeps ha)
  | nonIdleMachines => exact List.ne_nil_of_mem (nonIdle_keeps hc ha)
  | nonImmediateOps => exact List.ne_nil_of_mem (nio_keeps hL hok ha)

theorem applyFilters_nonempty {I : Instance} (hv : Valid I) {s : State} (hc : CInv I s) :
    ∀ (fs : List FilterKind) {L : List OpRef}, L ≠ [] → RefsOK I L → applyFilters I s fs L ≠ []
  | [], L, hL, _ => by simpa [applyFilters] using hL
  | f :: fs, L, hL, hok => by
    have h1 := applyFilter_nonempty hv hc f hL hok
    have h2 := applyFilters_nonempty hv hc fs h1 (hok.sublist (applyFilter_sublist I s f L))
    simpa [applyFilters] using h2

theorem PosDurL.sublist {I : Instance} {L L' : List OpRef} (h : PosDurL I L) (hs : L'.Sublist L) : PosDurL I L' :=
  fun r hr => h r (hs.subset hr)

theorem applyFilter_minStart {I : Instance} {s : State} (hc : CInv I s) (f : FilterKind)
    {L : List OpRef} (hL : L ≠ []) (hok : RefsOK I L) (hp : PosDurL I L) :
    minStart I s (applyFilter I s f L) = minStart I s L := by
  obtain ⟨r, op, m, ha⟩ := exists_attainsMin I s L hL hok
  have hsub := applyFilter_sublist I s f L
  cases f with
  | dominated => exact minStart_eq_of_keeps hL hok hsub ha (dom_keeps hL hok hp ha)
  | nonImmediateMachines => exact minStart_eq_of_keeps hL hok hsub ha (nim_keeps ha)
  | nonIdleMachines => exact minStart_eq_of_keeps hL hok hsub ha (nonIdle_keeps hc ha)
  | nonImmediateOps => exact minStart_eq_of_keeps hL hok hsub ha (nio_keeps hL hok ha)

/-- **Filtering never changes the minimum start time** (positive durations; any composition). -/
theorem applyFilters_minStart {I : Instance} (hv : Valid I) {s : State} (hc : CInv I s) :
    ∀ (fs : List FilterKind) {L : List OpRef}, RefsOK I L → PosDurL I L →
      minStart I s (applyFilters I s fs L) = minStart I s L
  | [], L, _, _ => by simp [applyFilters]
  | f :: fs, L, hok, hp => by
    by_cases hL : L = []
    · subst hL
      have : applyFilters I s (f :: fs) [] = [] := by
        have := (applyFilters_sublist I s (f :: fs) []); simpa using this
      rw [this]
    · have hsub := applyFilter_sublist I s f L
      have h1 := applyFilter_minStart hc f hL hok hp
      have h2 := applyFilters_minStart hv hc fs (hok.sublist hsub) (hp.sublist hsub)
      simp only [applyFilters, List.foldl_cons] at h2 ⊢
      rw [h2, h1]

end JS

import JobShopProofs.WorldLemmas
import JobShopProofs.Properties.C06
/-!
# World invariant and the effect of each world event
-/
namespace JS

structure WInv (w : World) : Prop where
  inv : Inv w.cfg w.s
  nodup : w.subs.Nodup
  valid : ∀ id ∈ w.subs, id < w.heap.length

theorem winv_init (c : Cfg) : WInv (World.init c) :=
  ⟨inv_init c, by simp [World.init], by simp [World.init]⟩

/-- the new schedule entry of an accepted request -/
theorem dispatchReq_entry {I : Instance} {s s' : State} {j p : Nat} {m : Option Int} (hwf : WF I s)
    (h : dispatchReq I s j p m = .ok s') :
    ∃ mm op, DispSpec I s s' j p mm op ∧
      (⟨j, p, mm, startTime s j mm, op.dur⟩ : SOp) ∈ s'.sched.flatten ∧
      s'.sched.flatten.Perm (s.sched.flatten ++ [⟨j, p, mm, startTime s j mm, op.dur⟩]) := by
  obtain ⟨mm, op, _, _, hdd⟩ := dispatchReq_ok h
  obtain ⟨op', hsp⟩ := dispatch_ok hdd
  have hmlt := machine_lt I j p mm op' hsp.hop hsp.hm
  have hperm := flatten_modify_perm s.sched mm (⟨j, p, mm, startTime s j mm, op'.dur⟩ : SOp)
    (by rw [hwf.lenS]; exact hmlt)
  refine ⟨mm, op', hsp, ?_, ?_⟩
  · rw [hsp.eq]; exact hperm.mem_iff.2 (by simp)
  · rw [hsp.eq]; exact hperm

/-- **Effect of an accepted dispatch on the world.** -/
theorem World.dispatch_accepted {w : World} (hw : WInv w) (hv : Valid w.cfg.I) {j p : Nat} {m : Option Int}
    {s' : State} (hd : dispatchReq w.cfg.I w.s j p m = .ok s') :
    ∃ x : SOp, x ∈ s'.sched.flatten ∧ x.job = j ∧ x.pos = p ∧
      (w.dispatch j p m).2 = .ok ∧
      (w.dispatch j p m).1.cfg = w.cfg ∧
      (∃ k, (w.dispatch j p m).1.s = setCache s' k) ∧ CacheOK w.cfg (w.dispatch j p m).1.s ∧
      (w.dispatch j p m).1.subs = w.subs ∧
      (w.dispatch j p m).1.heap.length = w.heap.length ∧
      (∀ i, i ∉ w.subs → (w.dispatch j p m).1.heap[i]? = w.heap[i]?) ∧
      (∀ i ∈ w.subs, ∀ o, w.heap[i]? = some o →
        (w.dispatch j p m).1.heap[i]? = some (Obs.updateSpec w.cfg s' i x o).1) ∧
      ((w.dispatch j p m).1.trace = w.trace ++ w.subs.flatMap fun id => match w.heap[id]? with
        | some o => (Obs.updateSpec w.cfg s' id x o).2 | none => []) ∧
      (w.dispatch j p m).1.accepted = w.accepted ++ [x] := by
  obtain ⟨mm, op, hsp, hmem, _⟩ := dispatchReq_entry hw.inv.cinv.wf hd
  have hcache : s'.cache = {} := by rw [hsp.eq]
  have hok' : CacheOK w.cfg s' := cacheOK_empty _ _ hcache
  -- the entry found by the lookup
  cases hfind : s'.sched.flatten.find? (fun x => x.job == j && x.pos == p) with
  | none =>
    have := List.find?_eq_none.1 hfind _ hmem
    simp at this
  | some x =>
    have hxp := List.find?_some hfind
    simp only [Bool.and_eq_true, beq_iff_eq] at hxp
    have hxm := List.mem_of_find?_eq_some hfind
    have hs' : s' = setCache s' s'.cache := rfl
    obtain ⟨heq, hok2, k', hk'⟩ := notifyAll_eq_pure (update_callOK w.cfg s' x) w.subs s'.cache w.heap w.trace
      (by rw [← hs']; exact hok')
    rw [← hs'] at heq hok2 hk'
    refine ⟨x, hxm, hxp.1, hxp.2, ?_, ?_, ?_, ?_, ?_, ?_, ?_, ?_, ?_, ?_⟩ <;>
      simp only [World.dispatch, hd, hfind]
    · exact ⟨k', hk'⟩
    · exact hok2
    · rw [heq]; exact notifyPure_length _ _ _ _
    · intro i hi; rw [heq]; exact notifyPure_other _ _ _ _ i hi
    · intro i hi o ho; rw [heq]; exact notifyPure_mem _ _ _ _ i hw.nodup hi o ho
    · rw [heq]
      exact notifyPure_trace _ _ _ _ hw.nodup hw.valid

theorem World.dispatch_rejected (w : World) {j p : Nat} {m : Option Int} {e : Err}
    (hd : dispatchReq w.cfg.I w.s j p m = .error e) : w.dispatch j p m = (w, .raised e) := by
  simp [World.dispatch, hd]

/-- **Effect of a reset on the world.** -/
theorem World.reset_spec {w : World} (hw : WInv w) :
    w.reset.cfg = w.cfg ∧ (∃ k, w.reset.s = setCache (JS.init w.cfg.I) k) ∧ CacheOK w.cfg w.reset.s ∧
    w.reset.subs = w.subs ∧ w.reset.heap.length = w.heap.length ∧
    (∀ i, i ∉ w.subs → w.reset.heap[i]? = w.heap[i]?) ∧
    (∀ i ∈ w.subs, ∀ o, w.heap[i]? = some o → w.reset.heap[i]? = some (Obs.resetSpec w.cfg (JS.init w.cfg.I) i o).1) ∧
    (w.reset.trace = w.trace ++ w.subs.flatMap fun id => match w.heap[id]? with
      | some o => (Obs.resetSpec w.cfg (JS.init w.cfg.I) id o).2 | none => []) ∧
    w.reset.accepted = [] := by
  have hs0 : JS.init w.cfg.I = setCache (JS.init w.cfg.I) (JS.init w.cfg.I).cache := rfl
  obtain ⟨heq, hok2, k', hk'⟩ := notifyAll_eq_pure (reset_callOK w.cfg (JS.init w.cfg.I)) w.subs
    (JS.init w.cfg.I).cache w.heap w.trace (by rw [← hs0]; exact cacheOK_empty _ _ rfl)
  rw [← hs0] at heq hok2 hk'
  refine ⟨rfl, ⟨k', hk'⟩, hok2, rfl, ?_, ?_, ?_, ?_, rfl⟩ <;> simp only [World.reset, JS.reset]
  · rw [heq]; exact notifyPure_length _ _ _ _
  · intro i hi; rw [heq]; exact notifyPure_other _ _ _ _ i hi
  · intro i hi o ho; rw [heq]; exact notifyPure_mem _ _ _ _ i hw.nodup hi o ho
  · rw [heq]
    exact notifyPure_trace _ _ _ _ hw.nodup hw.valid

theorem inv_setCache {c : Cfg} {s : State} {k : Cache} (h : Inv c s) (hk : CacheOK c (setCache s k)) :
    Inv c (setCache s k) := ⟨cinv_setCache k h.cinv, hk⟩

theorem winv_step {w : World} (hw : WInv w) (hv : Valid w.cfg.I) (e : WEv) :
    WInv (w.step e) ∧ (w.step e).cfg = w.cfg := by
  cases e with
  | disp j p m =>
    simp only [World.step]
    cases hd : dispatchReq w.cfg.I w.s j p m with
    | error e => rw [World.dispatch_rejected w hd]; exact ⟨hw, rfl⟩
    | ok s' =>
      obtain ⟨x, _, _, _, _, hcfg, ⟨k, hk⟩, hok, hsubs, hlen, _⟩ := World.dispatch_accepted hw hv hd
      obtain ⟨mm, op, _, _, hdd⟩ := dispatchReq_ok hd
      have hinv' : Inv w.cfg s' := inv_dispatch hv hw.inv hdd
      refine ⟨⟨?_, ?_, ?_⟩, hcfg⟩
      · rw [hcfg, hk]; rw [hk] at hok; exact inv_setCache hinv' hok
      · rw [hsubs]; exact hw.nodup
      · rw [hsubs, hlen]; exact hw.valid
  | reset =>
    simp only [World.step]
    obtain ⟨hcfg, ⟨k, hk⟩, hok, hsubs, hlen, _⟩ := World.reset_spec hw
    refine ⟨⟨?_, ?_, ?_⟩, hcfg⟩
    · rw [hcfg, hk]; rw [hk] at hok; exact inv_setCache (inv_init w.cfg) hok
    · rw [hsubs]; exact hw.nodup
    · rw [hsubs, hlen]; exact hw.valid
  | query q =>
    simp only [World.step, World.ask]
    obtain ⟨_, hok, k, hk⟩ := ask_ok w.cfg w.s hw.inv.cache q
    refine ⟨⟨?_, hw.nodup, hw.valid⟩, trivial⟩
    simp only; rw [hk]; rw [hk] at hok; exact inv_setCache hw.inv hok
  | construct k =>
    simp only [World.step, World.construct]
    split
    · exact ⟨hw, rfl⟩
    · refine ⟨⟨hw.inv, ?_, ?_⟩, rfl⟩
      · simp only
        rw [List.nodup_append]
        refine ⟨hw.nodup, by simp, ?_⟩
        intro a ha b hb
        simp only [List.mem_singleton] at hb
        have := hw.valid a ha
        omega
      · intro id hid
        simp only [List.mem_append, List.mem_singleton] at hid
        simp only [List.length_append, List.length_singleton]
        rcases hid with h | h
        · have := hw.valid id h; omega
        · omega
  | constructTagged k t =>
    simp only [World.step, World.construct]
    split
    · exact ⟨hw, rfl⟩
    · refine ⟨⟨hw.inv, ?_, ?_⟩, rfl⟩
      · simp only
        rw [List.nodup_append]
        refine ⟨hw.nodup, by simp, ?_⟩
        intro a ha b hb
        simp only [List.mem_singleton] at hb
        have := hw.valid a ha
        omega
      · intro id hid
        simp only [List.mem_append, List.mem_singleton] at hid
        simp only [List.length_append, List.length_singleton]
        rcases hid with h | h
        · have := hw.valid id h; omega
        · omega
  | constructDetached k =>
    simp only [World.step, World.constructDetached]
    split
    · exact ⟨hw, rfl⟩
    · refine ⟨⟨hw.inv, hw.nodup, ?_⟩, rfl⟩
      intro id hid
      simp only [List.length_append, List.length_singleton]
      have := hw.valid id hid; omega
  | createOrGet k =>
    simp only [World.step, World.createOrGet]
    split
    · exact ⟨hw, rfl⟩
    · simp only [World.construct]
      split
      · exact ⟨hw, rfl⟩
      · refine ⟨⟨hw.inv, ?_, ?_⟩, rfl⟩
        · simp only
          rw [List.nodup_append]
          refine ⟨hw.nodup, by simp, ?_⟩
          intro a ha b hb
          simp only [List.mem_singleton] at hb
          have := hw.valid a ha
          omega
        · intro id hid
          simp only [List.mem_append, List.mem_singleton] at hid
          simp only [List.length_append, List.length_singleton]
          rcases hid with h | h
          · have := hw.valid id h; omega
          · omega
  | createOrGetCond k t =>
    simp only [World.step, World.createOrGetCond]
    split
    · exact ⟨hw, rfl⟩
    · simp only [World.construct]
      split
      · exact ⟨hw, rfl⟩
      · refine ⟨⟨hw.inv, ?_, ?_⟩, rfl⟩
        · simp only
          rw [List.nodup_append]
          refine ⟨hw.nodup, by simp, ?_⟩
          intro a ha b hb
          simp only [List.mem_singleton] at hb
          have := hw.valid a ha
          omega
        · intro id hid
          simp only [List.mem_append, List.mem_singleton] at hid
          simp only [List.length_append, List.length_singleton]
          rcases hid with h | h
          · have := hw.valid id h; omega
          · omega
  | unsub id =>
    simp only [World.step, World.unsubscribe]
    split
    · refine ⟨⟨hw.inv, hw.nodup.erase _, ?_⟩, rfl⟩
      intro i hi; exact hw.valid i (List.mem_of_mem_erase hi)
    · exact ⟨hw, rfl⟩
  | resub id =>
    simp only [World.step, World.resubscribe]
    split
    · exact ⟨hw, rfl⟩
    · rename_i hcond
      simp only [Bool.or_eq_true, List.contains_eq_mem, decide_eq_true_eq, not_or, Nat.not_le] at hcond
      refine ⟨⟨hw.inv, ?_, ?_⟩, rfl⟩
      · simp only
        rw [List.nodup_append]
        refine ⟨hw.nodup, by simp, ?_⟩
        intro a ha b hb
        simp only [List.mem_singleton] at hb
        subst hb
        intro hab; subst hab; exact hcond.1 ha
      · intro i hi
        simp only [List.mem_append, List.mem_singleton] at hi
        rcases hi with h | h
        · exact hw.valid i h
        · subst h; exact hcond.2

theorem winv_run (c : Cfg) (hv : Valid c.I) (evs : List WEv) :
    WInv (World.run c evs) ∧ (World.run c evs).cfg = c := by
  unfold World.run
  have : ∀ (evs : List WEv) (w : World), WInv w → w.cfg = c →
      WInv (evs.foldl World.step w) ∧ (evs.foldl World.step w).cfg = c := by
    intro evs
    induction evs with
    | nil => intro w hw hc; exact ⟨hw, hc⟩
    | cons e evs ih =>
      intro w hw hc
      obtain ⟨h1, h2⟩ := winv_step hw (by rw [hc]; exact hv) e
      exact ih _ h1 (by rw [h2, hc])
  exact this evs _ (winv_init c) rfl

end JS

import JobShopModel.FeatureSpecs
import JobShopProofs.Properties.C11
/-!
# From-scratch specifications of the feature observers' values

The executable specifications are in `JobShopModel/FeatureSpecs.lean` (so that the driver can print them); this file
adds the propositions that relate a column to them.  Every definition is written from the instance and the dispatcher state only (no observer state): it is the
"independent recomputation" of C11.  The Python oracle of the correspondence check (`harness/props/C11.py`)
implements the same definitions on the real schedule.  The theorems relating the incremental observers to these
specifications are in `FeatPosition`, `FeatCompleted`, `FeatMachines`, `FeatEst` (one step / initialisation at a
time) and `FeatureWorld` (every reachable feature world).
-/
namespace JS

/-- non-flexible instances: one machine per operation -/
def NonFlexG (I : Instance) : Prop := ∀ j p op, getOp I j p = some op → ∃ m, op.machines = [m]

/-! ## PositionInJobObserver -/

/-- the operation column agrees with `posSpec` on every unscheduled operation -/
def PosSpecOK (I : Instance) (s : State) (col : List Int) : Prop :=
  col.length = numOps I ∧ ∀ r ∈ unscheduledPure I s, col.getD (opId I r) 0 = posSpec s r

/-! ## DurationObserver -/

/-- operation level, on the unscheduled operations: the duration -/
def DurOpsOK (I : Instance) (s : State) (col : List Int) : Prop :=
  col.length = numOps I ∧ ∀ r ∈ unscheduledPure I s, col.getD (opId I r) 0 = opDurF I r

/-! ## EarliestStartTimeObserver -/

/-- the matrix agrees with `estSpec` on every unscheduled operation, and has the instance's shape -/
def EstOK (I : Instance) (s : State) (est : List (List Int)) : Prop :=
  est.length = I.length ∧ (∀ j, (est.getD j []).length = (I.getD j []).length) ∧
  ∀ r ∈ unscheduledPure I s, estAt est r = estSpec I s r

end JS

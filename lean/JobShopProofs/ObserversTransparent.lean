import JobShopProofs.EnvReward
import JobShopProofs.Properties.C05
import JobShopProofs.Properties.C02
import JobShopProofs.Properties.C06
/-!
# Observers are transparent to the dispatcher

Whatever observers are constructed, whenever, and whatever they do in their callbacks (feature observers, composite, residual
graph updater, reward and history observers rewrite each other through the heap of the feature world), the dispatcher state of the
feature world is exactly the state the plain dispatcher reaches on the dispatch requests and resets of the same history.  Hence every
theorem about `run c evs` (C01 feasibility, C02 tracking/replay, C05 query answers, C06 monotone time, C07/C08 filters) holds with
observers attached, and every query answer in a feature world is the answer of the observer-free dispatcher.

The corresponding part of the correspondence check: the C05/C06/C08 slices run one scenario in three with observers subscribed
(`observers_lines`), the C10 slice asks the queries from inside observer callbacks.
-/
namespace JS

/-- the dispatcher's share of a feature-world event -/
def FEv.toEv? : FEv → Option Ev
  | .disp j p m => some (.disp j p m)
  | .reset => some .reset
  | _ => none

theorem FWorld.dispatch_s (w : FWorld) (j p : Nat) (m : Option Int) :
    (w.dispatch j p m).1.cfg = w.cfg ∧ (w.dispatch j p m).1.s = (stepEv w.cfg w.s (.disp j p m)).1 := by
  cases hd : dispatchReq w.cfg.I w.s j p m with
  | error e =>
    have h1 : w.dispatch j p m = (w, false) := by simp only [FWorld.dispatch, hd]
    have h2 : stepEv w.cfg w.s (.disp j p m) = (w.s, .raised e) := by simp only [stepEv, hd]
    rw [h1, h2]
    exact ⟨rfl, rfl⟩
  | ok s' =>
    have h2 : stepEv w.cfg w.s (.disp j p m) = (s', .ok) := by simp only [stepEv, hd]
    rw [h2]
    cases hx : (s'.sched.flatten.find? fun x => x.job == j && x.pos == p) with
    | none =>
      have h1 : w.dispatch j p m = ({ w with s := s' }, true) := by simp only [FWorld.dispatch, hd, hx]
      rw [h1]
      exact ⟨rfl, rfl⟩
    | some x =>
      have h1 : w.dispatch j p m = (w.subs.foldl (fun w id => w.callUpdate x id) { w with s := s' }, true) := by
        simp only [FWorld.dispatch, hd, hx]
      rw [h1]
      have g := good_foldl (fun w id => w.callUpdate x id) (fun w id => good_callUpdate w x id) w.subs { w with s := s' }
      exact ⟨g.st.1, g.st.2⟩

theorem FWorld.reset_s (w : FWorld) : w.reset.cfg = w.cfg ∧ w.reset.s = (stepEv w.cfg w.s .reset).1 := by
  unfold FWorld.reset
  have g := good_foldl (fun w id => w.callReset id) (fun w id => good_callReset w id) w.subs { w with s := JS.init w.cfg.I }
  refine ⟨g.st.1, ?_⟩
  rw [g.st.2]
  rfl

/-- one event: the configuration never changes; the state moves exactly as the plain dispatcher's (constructors: not at all) -/
theorem FWorld.step_s (w : FWorld) (ev : FEv) :
    (w.step ev).cfg = w.cfg ∧
    (w.step ev).s = match ev.toEv? with | some e => (stepEv w.cfg w.s e).1 | none => w.s := by
  cases ev with
  | disp j p m => exact FWorld.dispatch_s w j p m
  | reset => exact FWorld.reset_s w
  | construct k fts => exact ⟨(good_construct w k fts).st.1, (good_construct w k fts).st.2⟩
  | composite parts => exact ⟨(good_constructComposite w parts).st.1, (good_constructComposite w parts).st.2⟩
  | residual b rm rj =>
    exact ⟨(good_constructResidual w _ rm rj).st.1, (good_constructResidual w _ rm rj).st.2⟩

theorem FWorld.foldl_step_s (c : Cfg) (evs : List FEv) (w : FWorld) (hc : w.cfg = c) :
    (evs.foldl FWorld.step w).cfg = c ∧ (evs.foldl FWorld.step w).s = runEvs c w.s (evs.filterMap FEv.toEv?) := by
  induction evs generalizing w with
  | nil => exact ⟨hc, rfl⟩
  | cons ev t ih =>
    simp only [List.foldl_cons]
    obtain ⟨h1, h2⟩ := FWorld.step_s w ev
    obtain ⟨i1, i2⟩ := ih (w.step ev) (h1.trans hc)
    refine ⟨i1, ?_⟩
    rw [i2, h2]
    cases he : ev.toEv? with
    | none => simp [he]
    | some e => simp [he, runEvs, hc]

/-- **Observers are transparent.**  After any history of observer constructions, dispatch requests (accepted or rejected) and
resets, the dispatcher state of the feature world is the state of the plain dispatcher after the requests and resets alone. -/
theorem observers_transparent (c : Cfg) (evs : List FEv) :
    (FWorld.run c evs).cfg = c ∧ (FWorld.run c evs).s = run c (evs.filterMap FEv.toEv?) := by
  unfold FWorld.run run
  exact FWorld.foldl_step_s c evs (FWorld.init c) rfl

/-- every query a user, a rule, a filter or an observer puts to the dispatcher of a feature world gets the answer the
observer-free dispatcher gives after the same requests and resets (C05 with observers attached) -/
theorem C05_world_answers (c : Cfg) (evs : List FEv) (q : Query) :
    (ask (FWorld.run c evs).cfg (FWorld.run c evs).s q).1 = (ask c (run c (evs.filterMap FEv.toEv?)) q).1 := by
  obtain ⟨h1, h2⟩ := observers_transparent c evs
  rw [h1, h2]

/-- constructing observers at any point of a history changes nothing the dispatcher shows: two histories with the same requests
and resets, but different observers created at different moments, end in the same dispatcher state -/
theorem C10_observers_do_not_disturb (c : Cfg) (evs evs' : List FEv)
    (h : evs.filterMap FEv.toEv? = evs'.filterMap FEv.toEv?) :
    (FWorld.run c evs).s = (FWorld.run c evs').s := by
  rw [(observers_transparent c evs).2, (observers_transparent c evs').2, h]

/-- C01 with observers attached: the schedule of every feature world is feasible -/
theorem C01_world_feasible (c : Cfg) (hv : Valid c.I) (evs : List FEv) : Feasible c.I (FWorld.run c evs).s.sched := by
  rw [(observers_transparent c evs).2]
  exact C01_feasible c hv _

/-- C02 with observers attached: the tracking vectors are what the schedule implies, whatever the observers did -/
theorem C02_world_tracking (c : Cfg) (hv : Valid c.I) (evs : List FEv) :
    let s := (FWorld.run c evs).s
    (∀ m, s.machNext.getD m 0 = lastEndOn s.sched m) ∧
    (∀ j, s.jobIdx.getD j 0 = (s.sched.flatten.filter fun x => x.job == j).length) ∧
    (∀ j, s.jobNext.getD j 0 = predEnd s.sched j (s.jobIdx.getD j 0)) ∧
    numScheduled s = s.sched.flatten.length := by
  intro s
  have h : s = run c (evs.filterMap FEv.toEv?) := (observers_transparent c evs).2
  obtain ⟨h1, h2, h3, h4, _⟩ := C02_tracking c hv (evs.filterMap FEv.toEv?)
  rw [h]
  exact ⟨h1, h2, h3, h4⟩

/-- C06 with observers attached: the clock of a feature world never goes back over a dispatch request -/
theorem C06_world_now_mono (c : Cfg) (hv : Valid c.I) (hF : c.F = none ∨ PosDurI c.I) (evs : List FEv)
    (j p : Nat) (m : Option Int) :
    currentTimePure c (FWorld.run c evs).s ≤ currentTimePure c (FWorld.run c (evs ++ [.disp j p m])).s := by
  have h1 := (observers_transparent c evs).2
  have h2 := (observers_transparent c (evs ++ [FEv.disp j p m])).2
  have : (evs ++ [FEv.disp j p m]).filterMap FEv.toEv? = evs.filterMap FEv.toEv? ++ [Ev.disp j p m] := by
    simp [List.filterMap_append, FEv.toEv?]
  rw [h1, h2, this]
  exact C06_now_mono c hv hF _ j p m

/-! non-vacuity: observers of every family created before, between and after dispatches and a reset -/
example :
    let evs : List FEv := [.construct .isReady none, .disp 0 0 (some 1), .construct .earliestStart none, .residual .agentTask true true,
      .disp 1 0 none, .composite none, .reset, .construct .makespanReward none, .disp 1 0 (some 1), .disp 5 0 none]
    evs.filterMap FEv.toEv? = [.disp 0 0 (some 1), .disp 1 0 none, .reset, .disp 1 0 (some 1), .disp 5 0 none] := by decide

end JS

import JobShopModel.CpSat
import JobShopProofs.Properties.C14
import JobShopProofs.Properties.C08
/-!
# Lemmas about the CP model: sorting, chains, operation ids, membership of the generated constraints
-/
namespace JS

/-! ## chains and sorting -/

theorem consec_pairwise {α} (st en : α → Int) : ∀ (l : List α), (∀ a ∈ l, st a ≤ en a) →
    Consec (fun a b => en a ≤ st b) l → l.Pairwise (fun a b => en a ≤ st b)
  | [], _, _ => List.Pairwise.nil
  | [a], _, _ => by simp
  | a :: b :: t, hse, hc => by
    obtain ⟨hab, hrest⟩ := hc
    have ih := consec_pairwise st en (b :: t) (fun x hx => hse x (by simp [hx])) hrest
    rw [List.pairwise_cons]
    refine ⟨?_, ih⟩
    intro c hc
    rcases List.mem_cons.1 hc with rfl | hct
    · exact hab
    · have hbc := (List.pairwise_cons.1 ih).1 c hct
      have := hse b (by simp)
      omega

theorem pairwise_consec {α} (R : α → α → Prop) : ∀ (l : List α), l.Pairwise R → Consec R l
  | [], _ => trivial
  | [a], _ => trivial
  | a :: b :: t, h => by
    rw [List.pairwise_cons] at h
    exact ⟨h.1 b (by simp), pairwise_consec R (b :: t) h.2⟩

theorem keyLe_total (a b : SOp) : keyLe a b = true ∨ keyLe b a = true := by
  simp only [keyLe, Bool.or_eq_true, decide_eq_true_eq, Bool.and_eq_true, beq_iff_eq]
  omega

theorem keyLe_trans {a b c : SOp} (h1 : keyLe a b = true) (h2 : keyLe b c = true) : keyLe a c = true := by
  simp only [keyLe, Bool.or_eq_true, decide_eq_true_eq, Bool.and_eq_true, beq_iff_eq] at *
  omega

theorem insertSOp_perm (x : SOp) : ∀ (l : List SOp), (insertSOp x l).Perm (x :: l)
  | [] => List.Perm.refl _
  | y :: ys => by
    simp only [insertSOp]
    split
    · exact ((insertSOp_perm x ys).cons y).trans (List.Perm.swap x y ys)
    · exact List.Perm.refl _

theorem insertSOp_sorted (x : SOp) : ∀ (l : List SOp), l.Pairwise (fun a b => keyLe a b = true) →
    (insertSOp x l).Pairwise (fun a b => keyLe a b = true)
  | [], _ => by simp [insertSOp]
  | y :: ys, h => by
    simp only [insertSOp]
    rw [List.pairwise_cons] at h
    by_cases hyx : keyLe y x = true
    · rw [if_pos hyx, List.pairwise_cons]
      refine ⟨?_, insertSOp_sorted x ys h.2⟩
      intro b hb
      rcases List.mem_cons.1 ((insertSOp_perm x ys).mem_iff.1 hb) with rfl | hb
      · exact hyx
      · exact h.1 b hb
    · rw [if_neg hyx, List.pairwise_cons]
      have hxy : keyLe x y = true := (keyLe_total x y).resolve_right hyx
      refine ⟨?_, List.pairwise_cons.2 h⟩
      intro b hb
      rcases List.mem_cons.1 hb with rfl | hb
      · exact hxy
      · exact keyLe_trans hxy (h.1 b hb)

theorem sortSOps_spec (l : List SOp) : (sortSOps l).Perm l ∧ (sortSOps l).Pairwise (fun a b => keyLe a b = true) := by
  unfold sortSOps
  have : ∀ (l acc : List SOp), acc.Pairwise (fun a b => keyLe a b = true) →
      (l.foldl (fun acc x => insertSOp x acc) acc).Perm (acc ++ l) ∧
      (l.foldl (fun acc x => insertSOp x acc) acc).Pairwise (fun a b => keyLe a b = true) := by
    intro l
    induction l with
    | nil => intro acc h; simp [h]
    | cons a t ih =>
      intro acc h
      simp only [List.foldl_cons]
      obtain ⟨p, s⟩ := ih (insertSOp a acc) (insertSOp_sorted a acc h)
      refine ⟨p.trans ?_, s⟩
      have h1 : (insertSOp a acc ++ t).Perm ((a :: acc) ++ t) := (insertSOp_perm a acc).append_right t
      have h2 : ((a :: acc) ++ t).Perm (acc ++ a :: t) := by
        simp only [List.cons_append]
        exact (List.perm_middle (l₁ := acc) (l₂ := t) (a := a)).symm
      exact h1.trans h2
  have h := this l [] List.Pairwise.nil
  simpa using h

/-- two intervals are disjoint -/
def Disj (a b : SOp) : Prop := a.end_ ≤ b.start ∨ b.end_ ≤ a.start

/-- sorted by `(start, end)` and pairwise disjoint, durations non-negative ⇒ listed in time order without overlap -/
theorem sorted_disjoint_ordered : ∀ (l : List SOp), (∀ a ∈ l, 0 ≤ a.dur) → l.Pairwise (fun a b => keyLe a b = true) →
    l.Pairwise Disj → l.Pairwise (fun a b => a.end_ ≤ b.start)
  | [], _, _, _ => List.Pairwise.nil
  | a :: t, hd, hs, hj => by
    rw [List.pairwise_cons] at hs hj ⊢
    refine ⟨?_, sorted_disjoint_ordered t (fun x hx => hd x (by simp [hx])) hs.2 hj.2⟩
    intro b hb
    have hk := hs.1 b hb
    have hda := hd a (by simp)
    have hdb := hd b (by simp [hb])
    have hk' : a.start < b.start ∨ (a.start = b.start ∧ a.end_ ≤ b.end_) := by
      simpa [keyLe] using hk
    rcases hj.1 b hb with h | h
    · exact h
    · simp only [SOp.end_] at h hk' ⊢
      rcases hk' with h1 | ⟨h1, h2⟩ <;> omega

theorem disj_symm {a b : SOp} (h : Disj a b) : Disj b a := h.symm

/-! ## operation ids -/

theorem opId_lt {I : Instance} {r : OpRef} (h : r ∈ allOps I) : opId I r < numOps I := by
  have : opId I r ∈ (allOps I).map (opId I) := List.mem_map_of_mem h
  rw [C14_ids] at this
  exact List.mem_range.1 this

theorem allOps_getElem_opId {I : Instance} {r : OpRef} (h : r ∈ allOps I) : (allOps I)[opId I r]? = some r := by
  obtain ⟨k, hk⟩ := List.getElem?_of_mem h
  have hlt : k < (allOps I).length := (List.getElem?_eq_some_iff.1 hk).1
  have : ((allOps I).map (opId I))[k]? = some (opId I r) := by simp [hk]
  rw [C14_ids] at this
  have hkk : k = opId I r := by
    rw [List.getElem?_range (by rwa [length_allOps] at hlt)] at this
    exact Option.some.inj this
  rw [← hkk]; exact hk

theorem opId_inj {I : Instance} {r r' : OpRef} (h : r ∈ allOps I) (h' : r' ∈ allOps I) (he : opId I r = opId I r') :
    r = r' := by
  have a := allOps_getElem_opId h
  have b := allOps_getElem_opId h'
  rw [he, b] at a
  exact (Option.some.inj a).symm

theorem mem_allOps_of_getOp {I : Instance} {j p : Nat} {op : Op} (h : getOp I j p = some op) : (j, p) ∈ allOps I := by
  rw [mem_allOps']; simp [h]

/-! ## membership of the generated constraints -/

theorem cp_mem_endEq {I : Instance} {r : OpRef} (h : r ∈ allOps I) :
    CpCon.lin [(-1, startVar I r), (1, endVar I r)] (some (durOf I r)) (durOf I r) ∈ (cpModel I).cons := by
  simp only [cpModel, List.mem_append, List.mem_map]
  exact Or.inl (Or.inl (Or.inl ⟨r, h, rfl⟩))

theorem cp_mem_prec {I : Instance} {r : OpRef} (h : r ∈ allOps I) (hp : r.2 ≠ 0) :
    CpCon.lin [(1, endVar I (r.1, r.2 - 1)), (-1, startVar I r)] none 0 ∈ (cpModel I).cons := by
  simp only [cpModel, List.mem_append, List.mem_filterMap]
  refine Or.inl (Or.inl (Or.inr ⟨r, h, ?_⟩))
  simp [hp]

theorem cp_mem_noOverlap {I : Instance} {m : Nat} (h : m < numMachines I) :
    CpCon.noOverlap ((opsOn I m).map (itvOf I)) ∈ (cpModel I).cons := by
  simp only [cpModel, List.mem_append, List.mem_flatMap, List.mem_range]
  exact Or.inl (Or.inr ⟨m, h, Or.inr (by simp)⟩)

theorem cp_mem_linMax (I : Instance) :
    CpCon.linMax (makespanVar I) ((allOps I).map (endVar I)) ∈ (cpModel I).cons := by
  simp [cpModel]

/-- every constraint of the model is of one of the five generated forms -/
theorem cp_cons_cases {I : Instance} {c : CpCon} (h : c ∈ (cpModel I).cons) :
    (∃ r ∈ allOps I, c = .lin [(-1, startVar I r), (1, endVar I r)] (some (durOf I r)) (durOf I r)) ∨
    (∃ r ∈ allOps I, r.2 ≠ 0 ∧ c = .lin [(1, endVar I (r.1, r.2 - 1)), (-1, startVar I r)] none 0) ∨
    (∃ m < numMachines I, ∃ r ∈ opsOn I m, c = .interval (itvOf I r)) ∨
    (∃ m < numMachines I, c = .noOverlap ((opsOn I m).map (itvOf I))) ∨
    c = .linMax (makespanVar I) ((allOps I).map (endVar I)) := by
  simp only [cpModel, List.mem_append, List.mem_map, List.mem_filterMap, List.mem_flatMap, List.mem_range,
    List.mem_singleton] at h
  rcases h with ((⟨r, hr, rfl⟩ | ⟨r, hr, hc⟩) | ⟨m, hm, hc⟩) | rfl
  · exact Or.inl ⟨r, hr, rfl⟩
  · by_cases hp : r.2 = 0
    · simp [hp] at hc
    · simp only [hp, ↓reduceIte, Option.some.injEq] at hc
      exact Or.inr (Or.inl ⟨r, hr, hp, hc.symm⟩)
  · rcases hc with ⟨r, hr, rfl⟩ | rfl
    · exact Or.inr (Or.inr (Or.inl ⟨m, hm, r, hr, rfl⟩))
    · exact Or.inr (Or.inr (Or.inr (Or.inl ⟨m, hm, rfl⟩)))
  · exact Or.inr (Or.inr (Or.inr (Or.inr rfl)))

theorem cp_dom (I : Instance) (i : Nat) (h : i < 2 * numOps I + 1) :
    (cpModel I).doms[i]? = some (0, totalDuration I) := by
  simp [cpModel, List.getElem?_replicate, h]

theorem cp_dom_some {I : Instance} {i : Nat} {lh : Int × Int} (h : (cpModel I).doms[i]? = some lh) :
    i < 2 * numOps I + 1 ∧ lh = (0, totalDuration I) := by
  simp only [cpModel, List.getElem?_replicate] at h
  split at h
  · rename_i hlt; exact ⟨hlt, (Option.some.inj h).symm⟩
  · cases h

theorem mem_opsOn {I : Instance} {m : Nat} {r : OpRef} : r ∈ opsOn I m ↔ r ∈ allOps I ∧ machOf I r = m := by
  simp [opsOn]

end JS

import JobShopProofs.ResidualWorld
import JobShopProofs.Properties.C13
/-!
# C13 on the whole feature world

The environments read their rewards from the reward observers of the FEATURE world (`JobShopModel/Features.lean`, kinds
`makespanReward` and `idleReward`).  `C13_world`: in every reachable feature world (observers constructed on the fresh dispatcher,
then any dispatch requests and resets) the rewards of a subscribed makespan-reward observer add up to minus the current makespan,
those of an idle-time-reward observer to minus the total idle time (`idleTotal`, defined in `Properties/C13.lean`: for every
machine the end of its last operation minus the work done on it); every reward is non-positive and there is exactly one per
accepted dispatch since the last reset.

Route (as `ResidualWorld.lean`): a world invariant `RewInv` over all reward observers of the heap, run alongside `FInv` and
`RW.RInv` (the latter for `subs = List.range heap.length`).

* `PK w w'`: the frame relation of constructors and resets — kinds never change, a reward observer is either untouched or
  fresh (no rewards, the tracked makespan is the current one), new reward observers are fresh.
* the dispatch: every subscriber is rewritten exactly once by `updObs`; for the two reward kinds this appends the reward whose
  arithmetic is that of `Properties/C13.lean` (`makespan_dispatch`, `idleOf_append`).
-/
namespace JS

/-- `idleTotal` (of `Properties/C13.lean`) spelled out: for every machine, the end of its last operation minus the work done
on it -/
theorem idleTotal_eq (s : State) :
    idleTotal s = (s.sched.map fun ms => ((ms.getLast?.map SOp.end_).getD 0) - (ms.map (·.dur)).sum).sum := rfl

namespace RewW

/-- the two reward kinds -/
def IsRew (k : FKind) : Prop := k = .makespanReward ∨ k = .idleReward

/-- a reward observer right after its construction or reset -/
def Fresh (s : State) (o : FObs) : Prop := o.rewards = [] ∧ (o.kind = .makespanReward → o.curMakespan = makespan s)

/-! ## the frame relation of constructors and resets -/

structure PK (w w' : FWorld) : Prop where
  st : w'.cfg = w.cfg ∧ w'.s = w.s
  len : w.heap.length ≤ w'.heap.length
  old : ∀ (k : Nat) (o : FObs), w.heap[k]? = some o → ∃ o' : FObs, w'.heap[k]? = some o' ∧ o'.kind = o.kind ∧
    (IsRew o.kind → o' = o ∨ Fresh w.s o')
  new : ∀ (k : Nat) (o' : FObs), w.heap.length ≤ k → w'.heap[k]? = some o' → IsRew o'.kind → Fresh w.s o'

theorem PK.refl (w : FWorld) : PK w w :=
  ⟨⟨rfl, rfl⟩, Nat.le_refl _, fun _ o h => ⟨o, h, rfl, fun _ => Or.inl rfl⟩,
    fun k o' hk h => by have := (List.getElem?_eq_some_iff.1 h).1; omega⟩

theorem PK.trans {a b c : FWorld} (h1 : PK a b) (h2 : PK b c) : PK a c := by
  refine ⟨⟨h2.st.1.trans h1.st.1, h2.st.2.trans h1.st.2⟩, Nat.le_trans h1.len h2.len, ?_, ?_⟩
  · intro k o ho
    obtain ⟨o1, g1, k1, r1⟩ := h1.old k o ho
    obtain ⟨o2, g2, k2, r2⟩ := h2.old k o1 g1
    refine ⟨o2, g2, k2.trans k1, ?_⟩
    intro hk
    have hk1 : IsRew o1.kind := by rw [k1]; exact hk
    rcases r2 hk1 with e | e
    · rcases r1 hk with e1 | e1
      · left; rw [e, e1]
      · right; rw [e]; exact e1
    · right; rw [← h1.st.2]; exact e
  · intro k o' hk ho' hr
    by_cases hlt : k < b.heap.length
    · obtain ⟨o1, g1⟩ : ∃ o1, b.heap[k]? = some o1 := ⟨b.heap[k], List.getElem?_eq_getElem hlt⟩
      obtain ⟨o2, g2, k2, r2⟩ := h2.old k o1 g1
      rw [ho'] at g2; cases g2
      have hr1 : IsRew o1.kind := by rw [← k2]; exact hr
      rcases r2 hr1 with e | e
      · rw [e]; exact h1.new k o1 hk g1 hr1
      · rw [← h1.st.2]; exact e
    · have := h2.new k o' (by omega) ho' hr
      rw [← h1.st.2]; exact this

theorem pk_push (w : FWorld) (o : FObs) (h : IsRew o.kind → Fresh w.s o) : PK w (w.push o).1 := by
  refine ⟨⟨rfl, rfl⟩, by simp [FWorld.push], ?_, ?_⟩
  · intro k o0 h0
    exact ⟨o0, (FCtor.keep_push w o).keep k o0 h0, rfl, fun _ => Or.inl rfl⟩
  · intro k o' hk' ho' hr
    rcases FCtor.push_get ho' with h1 | ⟨_, rfl⟩
    · have := (List.getElem?_eq_some_iff.1 h1).1; omega
    · exact h hr

theorem pk_setObs (w : FWorld) (id : Nat) (o' : FObs)
    (h : ∀ o0, w.heap[id]? = some o0 → o'.kind = o0.kind ∧ (IsRew o0.kind → Fresh w.s o')) :
    PK w (w.setObs id o') := by
  refine ⟨⟨rfl, rfl⟩, by simp [FWorld.setObs], ?_, ?_⟩
  · intro k o hk
    by_cases hik : id = k
    · subst hik
      obtain ⟨a, b⟩ := h o hk
      exact ⟨o', FCtor.setObs_get_self hk o', a, fun hr => Or.inr (b hr)⟩
    · refine ⟨o, ?_, rfl, fun _ => Or.inl rfl⟩
      simp only [FWorld.setObs]
      rw [List.getElem?_set_ne hik]; exact hk
  · intro k o1 hk ho1 _
    have := (List.getElem?_eq_some_iff.1 ho1).1
    simp only [FWorld.setObs, List.length_set] at this
    omega

/-- rewriting an observer that is not a reward observer, keeping its kind -/
theorem pk_setObs_plain {w : FWorld} {id : Nat} {o0 : FObs} (h0 : w.heap[id]? = some o0) (o' : FObs)
    (hk : o'.kind = o0.kind) (hr : ¬ IsRew o0.kind) : PK w (w.setObs id o') := by
  apply pk_setObs
  intro o1 h1
  rw [h0] at h1; cases h1
  exact ⟨hk, fun h => absurd h hr⟩

/-- rewriting a reward observer by a fresh one -/
theorem pk_setObs_fresh {w : FWorld} {id : Nat} {o0 : FObs} (h0 : w.heap[id]? = some o0) (o' : FObs)
    (hk : o'.kind = o0.kind) (hf : Fresh w.s o') : PK w (w.setObs id o') := by
  apply pk_setObs
  intro o1 h1
  rw [h0] at h1; cases h1
  exact ⟨hk, fun _ => hf⟩

theorem kindAt_pk {w w' : FWorld} {id : Nat} {k : FKind} (h : KindAt w id k) (e : PK w w') : KindAt w' id k := by
  obtain ⟨o, ho, hk⟩ := h
  obtain ⟨o', ho', hk', _⟩ := e.old id o ho
  exact ⟨o', ho', hk'.trans hk⟩

/-! ## the helpers -/

theorem pk_getUnscheduled (w : FWorld) :
    PK w w.getUnscheduled.1 ∧ KindAt w.getUnscheduled.1 w.getUnscheduled.2 .unscheduled := by
  unfold FWorld.getUnscheduled
  cases hf : w.findObs .unscheduled [] with
  | some id =>
    obtain ⟨o, ho, hk⟩ := findObs_kind hf
    exact ⟨PK.refl w, o, ho, hk⟩
  | none => exact ⟨pk_push w _ (by simp [IsRew]), RW.kindAt_push w _⟩

theorem pk_newRemaining (w : FWorld) (fts : List FT) :
    PK w (w.newRemaining fts).1 ∧ KindAt (w.newRemaining fts).1 (w.newRemaining fts).2 .remainingOps := by
  rw [FCtor.newRemaining_eq]
  simp only
  have e1 := pk_push w (({ kind := .remainingOps, fts := fts } : FObs).zeroed w.cfg.I) (by simp [FObs.zeroed, IsRew])
  have k1 : KindAt (w.push (({ kind := .remainingOps, fts := fts } : FObs).zeroed w.cfg.I)).1 w.heap.length .remainingOps :=
    RW.kindAt_push w _
  generalize (w.push (({ kind := .remainingOps, fts := fts } : FObs).zeroed w.cfg.I)).1 = w1 at e1 k1
  obtain ⟨e2, _⟩ := pk_getUnscheduled w1
  generalize w1.getUnscheduled = r2 at e2
  obtain ⟨w2, uid⟩ := r2
  simp only at e2 ⊢
  obtain ⟨o2, ho2, hk2⟩ := kindAt_pk k1 e2
  rw [getD_of_some ho2]
  have e3 := pk_setObs_plain ho2 (remainingInit w2.cfg (w2.heap.getD uid default).deques o2)
    (RW.remainingInit_kind _ _ _) (by rw [hk2]; simp [IsRew])
  exact ⟨e1.trans (e2.trans e3), _, FCtor.setObs_get_self ho2 _, (RW.remainingInit_kind _ _ _).trans hk2⟩

theorem pk_getRemaining (w : FWorld) (need : List FT) :
    PK w (w.getRemaining need).1 ∧ KindAt (w.getRemaining need).1 (w.getRemaining need).2 .remainingOps := by
  unfold FWorld.getRemaining
  cases hf : w.findObs .remainingOps need with
  | some id =>
    obtain ⟨o, ho, hk⟩ := findObs_kind hf
    exact ⟨PK.refl w, o, ho, hk⟩
  | none => exact pk_newRemaining w need

theorem pk_isCompletedInit {w : FWorld} {id : Nat} (hk : KindAt w id .isCompleted) : PK w (w.isCompletedInit id) := by
  obtain ⟨o0, h0, hk0⟩ := hk
  unfold FWorld.isCompletedInit
  simp only
  rw [getD_of_some h0]
  have e1 : PK w (w.setObs id (o0.zeroed w.cfg.I)) := pk_setObs_plain h0 _ rfl (by rw [hk0]; simp [IsRew])
  have g1 : (w.setObs id (o0.zeroed w.cfg.I)).heap[id]? = some (o0.zeroed w.cfg.I) := FCtor.setObs_get_self h0 _
  generalize w.setObs id (o0.zeroed w.cfg.I) = w1 at e1 g1
  obtain ⟨e2, _⟩ := pk_getRemaining w1 ((o0.zeroed w.cfg.I).fts.filter (· != .operations))
  generalize w1.getRemaining ((o0.zeroed w.cfg.I).fts.filter (· != .operations)) = r2 at e2
  obtain ⟨w2, rid⟩ := r2
  simp only at e2 ⊢
  obtain ⟨o2, ho2, hk2, _⟩ := e2.old id _ g1
  have hk2' : o2.kind = .isCompleted := hk2.trans hk0
  rw [getD_of_some ho2]
  have e3 := pk_setObs_plain ho2 { o2 with
      remJob := if o2.has .jobs then (w2.heap.getD rid default).col .jobs else o2.remJob,
      remMach := if o2.has .machines then (w2.heap.getD rid default).col .machines else o2.remMach } rfl
      (by rw [hk2']; simp [IsRew])
  exact e1.trans (e2.trans e3)

theorem pk_resetRemaining {w : FWorld} {id : Nat} (hk : KindAt w id .remainingOps) : PK w (w.resetRemaining id) := by
  unfold FWorld.resetRemaining
  simp only
  obtain ⟨e1, u, hu, hku⟩ := pk_getUnscheduled w
  generalize w.getUnscheduled = r1 at e1 hu
  obtain ⟨w1, uid⟩ := r1
  simp only at e1 hu ⊢
  rw [getD_of_some hu]
  have e2 := pk_setObs_plain hu { u with deques := fullDequesF w1.cfg.I } rfl (by rw [hku]; simp [IsRew])
  generalize w1.setObs uid { u with deques := fullDequesF w1.cfg.I } = w2 at e2
  obtain ⟨o2, ho2, hk2⟩ := kindAt_pk hk (e1.trans e2)
  rw [getD_of_some ho2]
  have e3 := pk_setObs_plain ho2 (remainingInit w2.cfg (w2.heap.getD uid default).deques (o2.zeroed w2.cfg.I))
    (RW.remainingInit_kind _ _ _) (by rw [hk2]; simp [IsRew])
  exact e1.trans (e2.trans e3)

/-! ## one `reset()` callback -/

/-- the reward observer at `k` (if there is one) is fresh -/
def FreshAt (w : FWorld) (k : Nat) : Prop :=
  ∀ o : FObs, w.heap[k]? = some o → IsRew o.kind → Fresh w.s o

theorem freshAt_pk {w w' : FWorld} {k : Nat} (h : FreshAt w k) (e : PK w w') : FreshAt w' k := by
  intro o' ho' hk'
  rw [e.st.2]
  by_cases hlt : k < w.heap.length
  · obtain ⟨o, ho⟩ : ∃ o, w.heap[k]? = some o := ⟨w.heap[k], List.getElem?_eq_getElem hlt⟩
    obtain ⟨o2, g2, k2, r2⟩ := e.old k o ho
    rw [ho'] at g2; cases g2
    have hk : IsRew o.kind := by rw [← k2]; exact hk'
    rcases r2 hk with e1 | e1
    · rw [e1]; exact h _ ho hk
    · exact e1
  · exact e.new k o' (by omega) ho' hk'

theorem freshAt_nonrew {w w' : FWorld} {k : Nat} {o : FObs} (e : PK w w') (h0 : w.heap[k]? = some o)
    (hne : ¬ IsRew o.kind) : FreshAt w' k := by
  intro o' ho' hk'
  obtain ⟨o2, g2, k2, _⟩ := e.old k o h0
  rw [ho'] at g2; cases g2
  exact absurd (k2 ▸ hk') hne

theorem pk_callReset (w : FWorld) (id : Nat) : PK w (w.callReset id) ∧ FreshAt (w.callReset id) id := by
  have key : ∀ o, w.heap[id]? = some o → ¬ IsRew o.kind → PK w (w.callReset id) →
      PK w (w.callReset id) ∧ FreshAt (w.callReset id) id := fun o h0 hne e => ⟨e, freshAt_nonrew e h0 hne⟩
  cases h0 : w.heap[id]? with
  | none =>
    have : w.callReset id = w := by unfold FWorld.callReset; rw [h0]
    rw [this]
    exact ⟨PK.refl w, fun o ho => by rw [h0] at ho; cases ho⟩
  | some o =>
    by_cases hres : IsRew o.kind
    · rcases hres with hk | hk
      · have : w.callReset id = w.setObs id { o with rewards := [], curMakespan := makespan w.s } := by
          unfold FWorld.callReset; simp only [h0, hk]
        rw [this]
        have hf : Fresh w.s { o with rewards := [], curMakespan := makespan w.s } := ⟨rfl, fun _ => rfl⟩
        refine ⟨pk_setObs_fresh h0 _ rfl hf, ?_⟩
        intro o1 h1 _
        rw [FCtor.setObs_get_self h0] at h1
        cases h1; exact hf
      · have : w.callReset id = w.setObs id { o with rewards := [] } := by
          unfold FWorld.callReset; simp only [h0, hk]
        rw [this]
        have hf : Fresh w.s { o with rewards := [] } := ⟨rfl, fun h => by
          have h' : o.kind = .makespanReward := h
          rw [hk] at h'; cases h'⟩
        refine ⟨pk_setObs_fresh h0 _ rfl hf, ?_⟩
        intro o1 h1 _
        rw [FCtor.setObs_get_self h0] at h1
        cases h1; exact hf
    · apply key o h0 hres
      unfold FWorld.callReset
      simp only [h0]
      split
      · exact pk_setObs_plain h0 _ (RW.isReadyFeatures_kind _ _ _) hres
      · exact pk_setObs_plain h0 _ (RW.estFeatures_kind _ _ _) hres
      · exact pk_setObs_plain h0 _ (RW.durationInit_kind _ _ _) hres
      · exact pk_setObs_plain h0 _ rfl hres
      · exact pk_setObs_plain h0 _ (RW.positionInit_kind _ _ _) hres
      · rename_i hk
        exact pk_resetRemaining ⟨o, h0, hk⟩
      · rename_i hk
        obtain ⟨e1, g1⟩ := pk_getRemaining w (o.fts.filter (· != .operations))
        generalize w.getRemaining (o.fts.filter (· != .operations)) = r1 at e1 g1
        obtain ⟨w1, rid⟩ := r1
        simp only at e1 g1 ⊢
        have e2 := pk_resetRemaining g1
        have hk2 : KindAt (w1.resetRemaining rid) id .isCompleted := kindAt_pk ⟨o, h0, hk⟩ (e1.trans e2)
        exact e1.trans (e2.trans (pk_isCompletedInit hk2))
      · exact pk_setObs_plain h0 _ rfl hres
      · exact pk_setObs_plain h0 _ rfl hres
      · exact pk_setObs_plain h0 _ rfl hres
      · rename_i hk
        exact absurd (Or.inl hk) hres
      · rename_i hk
        exact absurd (Or.inr hk) hres
      · exact pk_setObs_plain h0 _ rfl hres

/-- the loop of `Dispatcher.reset` -/
theorem pk_fold_callReset : ∀ (l : List Nat) (w : FWorld),
    PK w (l.foldl (fun w id => w.callReset id) w) ∧ ∀ id ∈ l, FreshAt (l.foldl (fun w id => w.callReset id) w) id
  | [], w => ⟨PK.refl w, fun _ h => by cases h⟩
  | a :: t, w => by
    simp only [List.foldl_cons]
    obtain ⟨e1, r1⟩ := pk_callReset w a
    obtain ⟨e2, r2⟩ := pk_fold_callReset t (w.callReset a)
    refine ⟨e1.trans e2, ?_⟩
    intro id hid
    rcases List.mem_cons.1 hid with rfl | hid
    · exact freshAt_pk r1 e2
    · exact r2 id hid

/-! ## constructors -/

theorem pk_getIsCompleted (w : FWorld) (need : List FT) : PK w (w.getIsCompleted need).1 := by
  unfold FWorld.getIsCompleted
  cases hf : w.findObs .isCompleted need with
  | some id => exact PK.refl w
  | none =>
    simp only
    exact (pk_push w _ (by simp [FObs.zeroed, IsRew])).trans (pk_isCompletedInit (RW.kindAt_push w _))

theorem pk_pushThen (w : FWorld) (base final : FObs) (hb : ¬ IsRew base.kind) (hk : final.kind = base.kind) :
    PK w ((w.push base).1.setObs (w.push base).2 final) := by
  refine (pk_push w base (fun h => absurd h hb)).trans (pk_setObs _ _ _ ?_)
  intro o0 h0
  rw [show (w.push base).2 = w.heap.length from rfl, FCtor.push_get_new] at h0
  cases h0
  exact ⟨hk, fun h => absurd h hb⟩

theorem pk_constructComposite (w : FWorld) (parts : Option (List Nat)) : PK w (w.constructComposite parts).1 := by
  unfold FWorld.constructComposite
  simp only
  exact pk_pushThen w _ _ (by simp [IsRew]) rfl

theorem pk_remainingCtor (w : FWorld) (base : FObs) (hk : base.kind = .remainingOps) :
    PK w ((w.push base).1.getUnscheduled.1.setObs (w.push base).2
      (remainingInit (w.push base).1.getUnscheduled.1.cfg
        ((w.push base).1.getUnscheduled.1.heap.getD (w.push base).1.getUnscheduled.2 default).deques base)) := by
  have e1 := pk_push w base (by rw [hk]; simp [IsRew])
  have k1 : KindAt (w.push base).1 w.heap.length .remainingOps := hk ▸ RW.kindAt_push w base
  show PK w ((w.push base).1.getUnscheduled.1.setObs w.heap.length _)
  generalize (w.push base).1 = w1 at e1 k1
  obtain ⟨e2, _⟩ := pk_getUnscheduled w1
  obtain ⟨o2, ho2, hk2⟩ := kindAt_pk k1 e2
  exact e1.trans (e2.trans (pk_setObs_plain ho2 _ ((RW.remainingInit_kind _ _ _).trans (hk.trans hk2.symm))
    (by rw [hk2]; simp [IsRew])))

theorem pk_construct (w : FWorld) (kind : FKind) (fts : Option (List FT)) : PK w (w.construct kind fts).1 := by
  cases kind <;> simp only [FWorld.construct]
  all_goals
    repeat' split
    all_goals first
      | exact PK.refl w
      | exact pk_push w _ (by simp [FObs.zeroed, IsRew, Fresh])
      | exact pk_pushThen w _ _ (by simp [FObs.zeroed, IsRew]) (RW.isReadyFeatures_kind _ _ _)
      | exact pk_pushThen w _ _ (by simp [FObs.zeroed, IsRew]) (RW.estFeatures_kind _ _ _)
      | exact pk_pushThen w _ _ (by simp [FObs.zeroed, IsRew]) (RW.durationInit_kind _ _ _)
      | exact pk_pushThen w _ _ (by simp [FObs.zeroed, IsRew]) (RW.positionInit_kind _ _ _)
      | exact pk_remainingCtor w _ rfl
      | exact (pk_push w _ (by simp [FObs.zeroed, IsRew])).trans (pk_isCompletedInit (RW.kindAt_push w _))

theorem pk_constructResidual (w : FWorld) (g : Graph) (rm rj : Bool) : PK w (w.constructResidual g rm rj).1 := by
  unfold FWorld.constructResidual
  by_cases h1 : (w.subs.any fun id => (w.heap[id]?.map (·.kind)) == some FKind.residual) = true
  · rw [if_pos h1]; exact PK.refl w
  · rw [if_neg h1]
    simp only
    generalize ((if rm then [FT.machines] else []) ++ (if rj then [FT.jobs] else [])) = need
    by_cases h2 : need.isEmpty = true
    · rw [if_pos h2]; exact pk_push w _ (by simp [IsRew])
    · rw [if_neg h2]; exact (pk_getIsCompleted w need).trans (pk_push _ _ (by simp [IsRew]))

theorem pk_ctor (w : FWorld) (e : FEv) (he : e.isCtor = true) : PK w (w.step e) := by
  cases e with
  | disp j p m => cases he
  | reset => cases he
  | construct k fts => exact pk_construct w k fts
  | composite parts => exact pk_constructComposite w parts
  | residual b rm rj => exact pk_constructResidual w _ rm rj

/-! ## the world invariant -/

/-- what C13 says about a reward observer, for the dispatcher state `s` -/
structure RewOK (s : State) (o : FObs) : Prop where
  mksp : o.kind = .makespanReward → o.rewards.sum = - makespan s ∧ o.curMakespan = makespan s ∧
    (∀ r ∈ o.rewards, r ≤ 0) ∧ o.rewards.length = numScheduled s
  idle : o.kind = .idleReward → o.rewards.sum = - idleTotal s ∧ (∀ r ∈ o.rewards, r ≤ 0) ∧
    o.rewards.length = numScheduled s

def RewInv (w : FWorld) : Prop := ∀ (k : Nat) (o : FObs), w.heap[k]? = some o → RewOK w.s o

theorem numScheduled_init (I : Instance) : numScheduled (init I) = 0 := by
  rw [numScheduled_eq, FCtor.init_sched_flatten]; rfl

theorem rewOK_fresh (I : Instance) (o : FObs) (h : Fresh (init I) o) : RewOK (init I) o := by
  obtain ⟨h1, h2⟩ := h
  constructor
  · intro hk
    rw [h1, h2 hk, makespan_init, numScheduled_init]
    simp
  · intro _
    rw [h1, idleTotal_init, numScheduled_init]
    simp

theorem rewOK_nonrew (s : State) (o : FObs) (h : ¬ IsRew o.kind) : RewOK s o :=
  ⟨fun hk => absurd (Or.inl hk) h, fun hk => absurd (Or.inr hk) h⟩

theorem rewinv_init (c : Cfg) : RewInv (FWorld.init c) := fun k o h => by simp [FWorld.init] at h

/-- constructors on a dispatcher in its initial state -/
theorem rewinv_ctor_pk {w w' : FWorld} (h : RewInv w) (hs : w.s = init w.cfg.I) (e : PK w w') : RewInv w' := by
  intro k o' ho'
  rw [e.st.2]
  by_cases hr : IsRew o'.kind
  · by_cases hlt : k < w.heap.length
    · obtain ⟨o, ho⟩ : ∃ o, w.heap[k]? = some o := ⟨w.heap[k], List.getElem?_eq_getElem hlt⟩
      obtain ⟨o2, g2, k2, r2⟩ := e.old k o ho
      rw [ho'] at g2; cases g2
      rcases r2 (k2 ▸ hr) with e1 | e1
      · rw [e1]; exact h k o ho
      · rw [hs] at e1 ⊢; exact rewOK_fresh _ _ e1
    · have := e.new k o' (by omega) ho' hr
      rw [hs] at this ⊢; exact rewOK_fresh _ _ this
  · exact rewOK_nonrew _ _ hr

/-- `Dispatcher.reset` -/
theorem rewinv_reset {w : FWorld} (hrng : w.subs = List.range w.heap.length) : RewInv w.reset := by
  unfold FWorld.reset
  obtain ⟨e, hr⟩ := pk_fold_callReset w.subs { w with s := JS.init w.cfg.I }
  generalize w.subs.foldl (fun w id => w.callReset id) { w with s := JS.init w.cfg.I } = W at e hr
  have hs : W.s = init w.cfg.I := e.st.2
  intro k o' ho'
  by_cases hrew : IsRew o'.kind
  · rw [hs]
    apply rewOK_fresh
    by_cases hlt : k < w.heap.length
    · have hmem : k ∈ w.subs := by rw [hrng]; exact List.mem_range.2 hlt
      have := hr k hmem o' ho' hrew
      rw [hs] at this; exact this
    · exact e.new k o' (by show w.heap.length ≤ k; omega) ho' hrew
  · exact rewOK_nonrew _ _ hrew

/-! ## the dispatch -/

/-- one accepted dispatch: total idle time grows by the gap the reward observer computes, which is non-negative -/
theorem idle_dispatch {c : Cfg} (hv : Valid c.I) {s s' : State} {j p : Nat} {m : Option Int} (hi : Inv c s)
    (hd : dispatchReq c.I s j p m = .ok s') {x : SOp} (hx : x ∈ s'.sched.flatten) (hj : x.job = j) (hp : x.pos = p) :
    idleTotal s' = idleTotal s + idleGap (s'.sched.getD x.machine []).dropLast x ∧
    0 ≤ idleGap (s'.sched.getD x.machine []).dropLast x := by
  obtain ⟨mm, op, hsp, hxe, _, _⟩ := accepted_entry hv hi hd hx hj hp
  have hmlt := machine_lt c.I j p mm op hsp.hop hsp.hm
  have hlenS : mm < s.sched.length := by rw [hi.cinv.wf.lenS]; exact hmlt
  have hxm : x.machine = mm := by rw [hxe]
  have hget : s.sched.getD mm [] = s.sched[mm] := by
    simp [List.getD_eq_getElem?_getD, List.getElem?_eq_getElem hlenS]
  have hlist : s'.sched.getD x.machine [] = s.sched[mm] ++ [x] := by
    rw [hxm, hsp.eq]; simp only; rw [getD_modify_eq _ _ _ _ hlenS, hget]; simp [hxe]
  have hidle : idleTotal s' = idleTotal s + (x.start - lastEndOf s.sched[mm]) := by
    unfold idleTotal
    rw [hsp.eq]; simp only
    rw [sum_map_modify idleOf _ s.sched mm hlenS, ← hxe, idleOf_append]; omega
  have hlast : lastEndOf s.sched[mm] ≤ x.start := by
    have := hi.cinv.lastEnd mm
    rw [hget] at this
    rw [hxe]; simp only [lastEndOf, startTime]; omega
  have hrew : idleGap (s'.sched.getD x.machine []).dropLast x = x.start - lastEndOf s.sched[mm] := by
    rw [hlist, List.dropLast_concat]
    unfold lastEndOf idleGap
    cases s.sched[mm].getLast? <;> simp
  rw [hrew]
  exact ⟨hidle, by omega⟩

/-- one notification of a reward observer across an accepted dispatch -/
theorem rewOK_upd {c : Cfg} (hv : Valid c.I) {s s' : State} {j p : Nat} {m : Option Int} {mm : Nat} {op : Op}
    (hi : Inv c s) (hdr : dispatchReq c.I s j p m = .ok s') (hdd : dispatch c.I s j p mm = .ok s')
    (hx : newEntry s j p mm op ∈ s'.sched.flatten) (hp : List FObs) (o : FObs) (h : RewOK s o) (hr : IsRew o.kind) :
    RewOK s' (updObs c s' (newEntry s j p mm op) hp o) := by
  have hn : numScheduled s' = numScheduled s + 1 := numScheduled_dispatch hi.cinv.wf hdd
  rcases hr with hk | hk
  · have e : updObs c s' (newEntry s j p mm op) hp o =
        { o with curMakespan := max o.curMakespan (newEntry s j p mm op).end_,
                 rewards := o.rewards ++ [o.curMakespan - max o.curMakespan (newEntry s j p mm op).end_] } := by
      simp only [updObs, hk]
    rw [e]
    obtain ⟨h1, h2, h3, h4⟩ := h.mksp hk
    have hm := makespan_dispatch hv hi hdr hx rfl rfl
    constructor
    · intro _
      simp only
      refine ⟨?_, by rw [h2, hm], ?_, ?_⟩
      · rw [sum_append_singleton, h1, h2, hm]; omega
      · intro r hr
        rcases List.mem_append.1 hr with hr | hr
        · exact h3 r hr
        · simp only [List.mem_singleton] at hr; subst hr; omega
      · simp [h4, hn]
    · intro hk'
      have hk'' : o.kind = .idleReward := hk'
      rw [hk] at hk''; cases hk''
  · have e : updObs c s' (newEntry s j p mm op) hp o =
        { o with rewards := o.rewards ++
            [-(idleGap (s'.sched.getD (newEntry s j p mm op).machine []).dropLast (newEntry s j p mm op))] } := by
      simp only [updObs, hk]
      rfl
    rw [e]
    obtain ⟨h1, h2, h3⟩ := h.idle hk
    obtain ⟨hid, hge⟩ := idle_dispatch hv hi hdr hx rfl rfl
    constructor
    · intro hk'
      have hk'' : o.kind = .makespanReward := hk'
      rw [hk] at hk''; cases hk''
    · intro _
      simp only
      refine ⟨?_, ?_, ?_⟩
      · rw [sum_append_singleton, h1, hid]; omega
      · intro r hr
        rcases List.mem_append.1 hr with hr | hr
        · exact h2 r hr
        · simp only [List.mem_singleton] at hr; subst hr; omega
      · simp [h3, hn]

/-- an accepted or rejected dispatch request preserves the invariant -/
theorem rewinv_dispatch {w : FWorld} (hv : Valid w.cfg.I) (hF : w.cfg.F = none ∨ PosDurI w.cfg.I) (hf : FInv w)
    (hrng : w.subs = List.range w.heap.length) (h : RewInv w) (j p : Nat) (m : Option Int) :
    RewInv (w.dispatch j p m).1 := by
  unfold FWorld.dispatch
  cases hdr : dispatchReq w.cfg.I w.s j p m with
  | error e => exact h
  | ok s' =>
    simp only
    obtain ⟨mm, op, hop, _, hdd⟩ := dispatchReq_ok hdr
    obtain ⟨op', hsp⟩ := dispatch_ok hdd
    have hop' := hsp.hop
    rw [hop] at hop'; cases hop'
    obtain ⟨evs, hevs⟩ := hf.reach
    have hi : Inv w.cfg w.s := by rw [hevs]; exact inv_run hv evs
    have hc : CInv w.cfg.I w.s := hi.cinv
    have hvop := hv j p op hop
    have hfind := find_new_entry hc hvop.2.2 hsp
    rw [hfind]
    simp only
    have hx : newEntry w.s j p mm op ∈ s'.sched.flatten := List.mem_of_find?_eq_some hfind
    have hrun : s' = run w.cfg (evs ++ [.disp j p m]) := by
      rw [run_snoc, ← hevs]
      simp only [stepEv, hdr]
    have hmono : ∀ r, r ∈ completedPure w.cfg w.s → r ∈ completedPure w.cfg s' := by
      intro r hr
      rw [hrun]
      rw [hevs] at hr
      exact C06_completed_mono w.cfg hv hF evs j p m r hr
    obtain ⟨f1, f2, f3, f4, _, f6⟩ :=
      fold_callUpdate_at (newEntry w.s j p mm op) w.subs { w with s := s' } hf.subs.nodup
    show RewInv (w.subs.foldl (fun (W : FWorld) id => W.callUpdate (newEntry w.s j p mm op) id) { w with s := s' })
    generalize w.subs.foldl (fun (W : FWorld) id => W.callUpdate (newEntry w.s j p mm op) id) { w with s := s' } = W
      at f1 f2 f3 f4 f6
    intro k o' ho'
    have hlt : k < w.heap.length := by
      have := (List.getElem?_eq_some_iff.1 ho').1
      rw [f4] at this; exact this
    obtain ⟨o, ho⟩ : ∃ o, w.heap[k]? = some o := ⟨w.heap[k], List.getElem?_eq_getElem hlt⟩
    have hmem : k ∈ w.subs := by rw [hrng]; exact List.mem_range.2 hlt
    obtain ⟨hp, hhp⟩ := f6 k hmem o ho
    rw [hhp] at ho'
    cases ho'
    rw [f2]
    obtain ⟨kk, _, _⟩ := updObs_spec w.cfg hv hc hsp hmono hp o (hf.shape k o ho) (hf.val k hmem o ho)
    by_cases hr : IsRew o.kind
    · exact rewOK_upd hv hi hdr hdd hx hp o (h k o ho) hr
    · exact rewOK_nonrew _ _ (by rw [kk]; exact hr)

/-! ## every reachable feature world -/

theorem trio_ctors {c : Cfg} (hv : Valid c.I) : ∀ (ctors : List FEv) (w : FWorld), w.cfg = c → FInv w → RW.RInv w →
    RewInv w → w.s = init c.I → (∀ e ∈ ctors, e.isCtor = true) → (∀ e ∈ ctors, e.NodupFts) →
    FInv (ctors.foldl FWorld.step w) ∧ RW.RInv (ctors.foldl FWorld.step w) ∧ RewInv (ctors.foldl FWorld.step w) ∧
      (ctors.foldl FWorld.step w).s = init c.I ∧ (ctors.foldl FWorld.step w).cfg = c
  | [], w, hc, h, hr, hq, hs, _, _ => ⟨h, hr, hq, hs, hc⟩
  | e :: t, w, hc, h, hr, hq, hs, hct, hnd => by
    simp only [List.foldl_cons]
    subst hc
    obtain ⟨h1, h2, h3⟩ := finv_ctor hv h hs e (hct e (List.mem_cons_self ..))
      (by intro k l he; have := hnd e (List.mem_cons_self ..); rw [he] at this; exact this)
    have hr1 := RW.rinv_ctor hv hr hs e (hct e (List.mem_cons_self ..))
    have hq1 := rewinv_ctor_pk hq hs (pk_ctor w e (hct e (List.mem_cons_self ..)))
    exact trio_ctors (c := w.cfg) hv t _ h3 h1 hr1 hq1 h2
      (fun e' he' => hct e' (List.mem_cons_of_mem _ he')) (fun e' he' => hnd e' (List.mem_cons_of_mem _ he'))

theorem trio_events {c : Cfg} (hv : Valid c.I) (hF : c.F = none ∨ PosDurI c.I) : ∀ (evs : List FEv) (w : FWorld),
    w.cfg = c → FInv w → RW.RInv w → RewInv w → (∀ e ∈ evs, e.isCtor = false) →
    FInv (evs.foldl FWorld.step w) ∧ RewInv (evs.foldl FWorld.step w) ∧ (evs.foldl FWorld.step w).cfg = c
  | [], w, hc, h, _, hq, _ => ⟨h, hq, hc⟩
  | e :: t, w, hc, h, hr, hq, hev => by
    simp only [List.foldl_cons]
    subst hc
    have he := hev e (List.mem_cons_self ..)
    have hrest : ∀ e' ∈ t, e'.isCtor = false := fun e' he' => hev e' (List.mem_cons_of_mem _ he')
    cases e with
    | disp j p m =>
      have hcfg : (w.dispatch j p m).1.cfg = w.cfg := (dispatch_keeps w j p m).2.2.1
      exact trio_events (c := w.cfg) hv hF t _ hcfg (finv_dispatch hv hF h j p m) (RW.rinv_dispatch hv hF h hr j p m)
        (rewinv_dispatch hv hF h hr.rng hq j p m) hrest
    | reset =>
      have hcfg : w.reset.cfg = w.cfg := (reset_keeps w).2.2.1
      exact trio_events (c := w.cfg) hv hF t _ hcfg (finv_reset hv h).1 (RW.rinv_reset hv hr) (rewinv_reset hr.rng) hrest
    | construct k fts => simp [FEv.isCtor] at he
    | composite parts => simp [FEv.isCtor] at he
    | residual b rm rj => simp [FEv.isCtor] at he

/-- the value invariant and the reward invariant in every reachable feature world -/
theorem trio_run (c : Cfg) (hv : Valid c.I) (hF : c.F = none ∨ PosDurI c.I) (ctors evs : List FEv)
    (hct : ∀ e ∈ ctors, e.isCtor = true) (hnd : ∀ e ∈ ctors, e.NodupFts) (hev : ∀ e ∈ evs, e.isCtor = false) :
    FInv (FWorld.run c (ctors ++ evs)) ∧ RewInv (FWorld.run c (ctors ++ evs)) ∧ (FWorld.run c (ctors ++ evs)).cfg = c := by
  unfold FWorld.run
  rw [List.foldl_append]
  obtain ⟨h0, hs0⟩ := finv_init c
  obtain ⟨h1, r1, q1, _, h3⟩ := trio_ctors hv ctors (FWorld.init c) rfl h0 (RW.rinv_init c) (rewinv_init c) hs0 hct hnd
  exact trio_events hv hF evs _ h3 h1 r1 q1 hev

end RewW

/-- **C13 on the whole feature world.**  In every reachable feature world the rewards of a makespan-reward observer add up to
minus the current makespan (which the observer tracks), those of an idle-time-reward observer to minus the total idle time; every
reward is non-positive; there is exactly one reward per accepted dispatch since the last reset. -/
theorem C13_world (c : Cfg) (hv : Valid c.I) (hF : c.F = none ∨ PosDurI c.I) (w : FWorld) (hw : Reached c w)
    (id : Nat) (hid : id ∈ w.subs) (o : FObs) (ho : w.heap[id]? = some o) :
    (o.kind = .makespanReward → o.rewards.sum = - makespan w.s ∧ o.curMakespan = makespan w.s ∧ (∀ r ∈ o.rewards, r ≤ 0) ∧
        o.rewards.length = numScheduled w.s) ∧
    (o.kind = .idleReward → o.rewards.sum = - idleTotal w.s ∧ (∀ r ∈ o.rewards, r ≤ 0) ∧ o.rewards.length = numScheduled w.s) := by
  have _ := hid
  obtain ⟨ctors, evs, hct, hnd, hev, rfl⟩ := hw.ex
  obtain ⟨_, hq, _⟩ := RewW.trio_run c hv hF ctors evs hct hnd hev
  have := hq id o ho
  exact ⟨this.mksp, this.idle⟩

/-! non-vacuity: a reachable world with both reward observers between other observers (helpers created lazily), a reset in the
middle of the history, a dispatch that does not extend the makespan and dispatches that leave gaps -/
set_option maxRecDepth 100000 in
example :
    let w := FWorld.run { I := c11Instance }
      ([.construct .isCompleted none, .construct .makespanReward none, .construct .idleReward none,
        .construct .remainingOps none, .construct .makespanReward none] ++
       [.disp 0 0 (some 1), .disp 1 0 none, .reset, .disp 1 0 (some 1), .disp 1 1 none, .disp 0 0 (some 0), .disp 1 2 none,
        .disp 0 1 none, .disp 0 1 none])
    3 ∈ w.subs ∧ 4 ∈ w.subs ∧
    (w.heap[3]?.map fun o => (o.kind, o.rewards, o.curMakespan)) = some (.makespanReward, [-4, -1, -3, 0, -2], 10) ∧
    (w.heap[4]?.map fun o => (o.kind, o.rewards)) = some (.idleReward, [0, -4, 0, -1, -3]) ∧
    makespan w.s = 10 ∧ idleTotal w.s = 8 ∧ numScheduled w.s = 5 := by decide

end JS

import JobShopModel.Events
/-!
# The memo table is coherent

`CacheOK c s`: every filled slot of `Dispatcher._cache` holds the value its method body computes from
the current tracking vectors and schedule.  Every cached method returns that value, keeps `CacheOK`, and
touches nothing but the memo table.
-/
namespace JS

def setCache (s : State) (k : Cache) : State := { s with cache := k }

@[simp] theorem setCache_sched (s k) : (setCache s k).sched = s.sched := rfl
@[simp] theorem setCache_machNext (s k) : (setCache s k).machNext = s.machNext := rfl
@[simp] theorem setCache_jobIdx (s k) : (setCache s k).jobIdx = s.jobIdx := rfl
@[simp] theorem setCache_jobNext (s k) : (setCache s k).jobNext = s.jobNext := rfl
@[simp] theorem setCache_cache (s k) : (setCache s k).cache = k := rfl
@[simp] theorem setCache_setCache (s k k') : setCache (setCache s k) k' = setCache s k' := rfl

/-! pure bodies do not read the memo -/
@[simp] theorem rawReady_setCache (I s k) : rawReady I (setCache s k) = rawReady I s := rfl
@[simp] theorem minStart_setCache (I s k L) : minStart I (setCache s k) L = minStart I s L := by
  cases L <;> rfl
@[simp] theorem applyFilter_setCache (I s k f L) : applyFilter I (setCache s k) f L = applyFilter I s f L := by
  cases f <;> rfl
@[simp] theorem applyFilters_setCache (I s k fs L) : applyFilters I (setCache s k) fs L = applyFilters I s fs L := by
  unfold applyFilters
  induction fs generalizing L with
  | nil => rfl
  | cons f fs ih => simp only [List.foldl_cons, applyFilter_setCache, ih]
@[simp] theorem applyCfg_setCache (I s k F L) : applyCfg I (setCache s k) F L = applyCfg I s F L := by
  cases F <;> simp [applyCfg]
@[simp] theorem availablePure_setCache (c s k) : availablePure c (setCache s k) = availablePure c s := by
  simp [availablePure]
@[simp] theorem currentTimePure_setCache (c s k) : currentTimePure c (setCache s k) = currentTimePure c s := by
  simp [currentTimePure]
@[simp] theorem unscheduledPure_setCache (I s k) : unscheduledPure I (setCache s k) = unscheduledPure I s := rfl
@[simp] theorem scheduledPure_setCache (I s k) : scheduledPure I (setCache s k) = scheduledPure I s := rfl
@[simp] theorem availableMachinesPure_setCache (c s k) :
    availableMachinesPure c (setCache s k) = availableMachinesPure c s := by simp [availableMachinesPure]
@[simp] theorem availableJobsPure_setCache (c s k) :
    availableJobsPure c (setCache s k) = availableJobsPure c s := by simp [availableJobsPure]
@[simp] theorem ongoingAt_setCache (s k t) : ongoingAt (setCache s k) t = ongoingAt s t := rfl
@[simp] theorem ongoingPure_setCache (c s k) : ongoingPure c (setCache s k) = ongoingPure c s := by
  simp [ongoingPure]
@[simp] theorem completedPure_setCache (c s k) : completedPure c (setCache s k) = completedPure c s := by
  simp [completedPure]
@[simp] theorem uncompletedPure_setCache (c s k) : uncompletedPure c (setCache s k) = uncompletedPure c s := by
  simp [uncompletedPure]

/-- every filled memo slot holds the value of its method body in the *current* state -/
structure CacheOK (c : Cfg) (s : State) : Prop where
  currentTime : ∀ v, s.cache.currentTime = some v → v = currentTimePure c s
  available : ∀ v, s.cache.available = some v → v = availablePure c s
  rawReady : ∀ v, s.cache.rawReady = some v → v = rawReady c.I s
  unscheduled : ∀ v, s.cache.unscheduled = some v → v = unscheduledPure c.I s
  scheduled : ∀ v, s.cache.scheduled = some v → v = scheduledPure c.I s
  availableMachines : ∀ v, s.cache.availableMachines = some v → v = availableMachinesPure c s
  availableJobs : ∀ v, s.cache.availableJobs = some v → v = availableJobsPure c s
  completed : ∀ v, s.cache.completed = some v → v = completedPure c s
  uncompleted : ∀ v, s.cache.uncompleted = some v → v = uncompletedPure c s
  ongoing : ∀ v, s.cache.ongoing = some v → v = ongoingPure c s

theorem cacheOK_empty (c : Cfg) (s : State) (h : s.cache = {}) : CacheOK c s := by
  constructor <;> intro v hv <;> simp [h] at hv

/-- result of a cached method: right value, memo still coherent, only the memo changed -/
structure QOk {α} (c : Cfg) (s : State) (r : α × State) (v : α) : Prop where
  val : r.1 = v
  ok : CacheOK c r.2
  core : ∃ k, r.2 = setCache s k

theorem cacheOK_set {c : Cfg} {s : State} {k : Cache} (h : CacheOK c (setCache s k)) : CacheOK c (setCache s k) := h

/-- helper: updating one slot of a coherent memo with the correct value keeps it coherent -/
theorem CacheOK.of_slots {c : Cfg} {s : State} {k : Cache}
    (h1 : ∀ v, k.currentTime = some v → v = currentTimePure c s)
    (h2 : ∀ v, k.available = some v → v = availablePure c s)
    (h3 : ∀ v, k.rawReady = some v → v = JS.rawReady c.I s)
    (h4 : ∀ v, k.unscheduled = some v → v = unscheduledPure c.I s)
    (h5 : ∀ v, k.scheduled = some v → v = scheduledPure c.I s)
    (h6 : ∀ v, k.availableMachines = some v → v = availableMachinesPure c s)
    (h7 : ∀ v, k.availableJobs = some v → v = availableJobsPure c s)
    (h8 : ∀ v, k.completed = some v → v = completedPure c s)
    (h9 : ∀ v, k.uncompleted = some v → v = uncompletedPure c s)
    (h10 : ∀ v, k.ongoing = some v → v = ongoingPure c s) : CacheOK c (setCache s k) := by
  constructor <;> simp <;> assumption

theorem CacheOK.slots {c : Cfg} {s : State} {k : Cache} (h : CacheOK c (setCache s k)) :
    (∀ v, k.currentTime = some v → v = currentTimePure c s) ∧
    (∀ v, k.available = some v → v = availablePure c s) ∧
    (∀ v, k.rawReady = some v → v = JS.rawReady c.I s) ∧
    (∀ v, k.unscheduled = some v → v = unscheduledPure c.I s) ∧
    (∀ v, k.scheduled = some v → v = scheduledPure c.I s) ∧
    (∀ v, k.availableMachines = some v → v = availableMachinesPure c s) ∧
    (∀ v, k.availableJobs = some v → v = availableJobsPure c s) ∧
    (∀ v, k.completed = some v → v = completedPure c s) ∧
    (∀ v, k.uncompleted = some v → v = uncompletedPure c s) ∧
    (∀ v, k.ongoing = some v → v = ongoingPure c s) := by
  have h1 := h.currentTime; have h2 := h.available; have h3 := h.rawReady; have h4 := h.unscheduled
  have h5 := h.scheduled; have h6 := h.availableMachines; have h7 := h.availableJobs
  have h8 := h.completed; have h9 := h.uncompleted; have h10 := h.ongoing
  simp at h1 h2 h3 h4 h5 h6 h7 h8 h9 h10
  exact ⟨h1, h2, h3, h4, h5, h6, h7, h8, h9, h10⟩

theorem state_eq_setCache (s : State) : s = setCache s s.cache := rfl

/-- a slot together with the pure value it is supposed to hold -/
structure SlotSpec {α} (c : Cfg) (sl : Slot α) (pv : State → α) : Prop where
  /-- a filled slot of a coherent memo holds the pure value -/
  read : ∀ s v, CacheOK c s → sl.get s.cache = some v → v = pv s
  /-- storing the pure value keeps the memo coherent -/
  write : ∀ s k, CacheOK c (setCache s k) → CacheOK c (setCache s (sl.set k (pv s)))

/-- The `_dispatcher_cache` decorator is transparent: if the body computes the pure value, so does
the cached method, and the memo stays coherent. -/
theorem memo_ok {α} {c : Cfg} {sl : Slot α} {pv : State → α} (hs : SlotSpec c sl pv)
    {body : State → α × State} (s : State) (h : CacheOK c s)
    (hb : QOk c s (body s) (pv s)) : QOk c s (memo sl body s) (pv s) := by
  unfold memo
  split
  · rename_i v hv
    exact ⟨hs.read s v h hv, h, ⟨s.cache, rfl⟩⟩
  · obtain ⟨hv, hok, k, hk⟩ := hb
    refine ⟨hv, ?_, ⟨sl.set k (pv s), ?_⟩⟩
    · simp only
      rw [hk] at hok ⊢
      rw [hv]
      exact hs.write s k hok
    · simp only; rw [hk, hv]; rfl

theorem slotRawReady_spec (c : Cfg) : SlotSpec c slotRawReady (fun s => rawReady c.I s) := by
  constructor
  · intro s v h hv; exact h.rawReady v hv
  · intro s k h
    obtain ⟨h1, h2, h3, h4, h5, h6, h7, h8, h9, h10⟩ := h.slots
    apply CacheOK.of_slots (s := s) <;> first | assumption | (intro v hv; simp [slotRawReady] at hv; exact hv.symm)

theorem slotAvailable_spec (c : Cfg) : SlotSpec c slotAvailable (fun s => availablePure c s) := by
  constructor
  · intro s v h hv; exact h.available v hv
  · intro s k h
    obtain ⟨h1, h2, h3, h4, h5, h6, h7, h8, h9, h10⟩ := h.slots
    apply CacheOK.of_slots (s := s) <;> first | assumption | (intro v hv; simp [slotAvailable] at hv; exact hv.symm)

theorem slotCurrentTime_spec (c : Cfg) : SlotSpec c slotCurrentTime (fun s => currentTimePure c s) := by
  constructor
  · intro s v h hv; exact h.currentTime v hv
  · intro s k h
    obtain ⟨h1, h2, h3, h4, h5, h6, h7, h8, h9, h10⟩ := h.slots
    apply CacheOK.of_slots (s := s) <;> first | assumption | (intro v hv; simp [slotCurrentTime] at hv; exact hv.symm)

theorem slotUnscheduled_spec (c : Cfg) : SlotSpec c slotUnscheduled (fun s => unscheduledPure c.I s) := by
  constructor
  · intro s v h hv; exact h.unscheduled v hv
  · intro s k h
    obtain ⟨h1, h2, h3, h4, h5, h6, h7, h8, h9, h10⟩ := h.slots
    apply CacheOK.of_slots (s := s) <;> first | assumption | (intro v hv; simp [slotUnscheduled] at hv; exact hv.symm)

theorem slotScheduled_spec (c : Cfg) : SlotSpec c slotScheduled (fun s => scheduledPure c.I s) := by
  constructor
  · intro s v h hv; exact h.scheduled v hv
  · intro s k h
    obtain ⟨h1, h2, h3, h4, h5, h6, h7, h8, h9, h10⟩ := h.slots
    apply CacheOK.of_slots (s := s) <;> first | assumption | (intro v hv; simp [slotScheduled] at hv; exact hv.symm)

theorem slotAvailableMachines_spec (c : Cfg) :
    SlotSpec c slotAvailableMachines (fun s => availableMachinesPure c s) := by
  constructor
  · intro s v h hv; exact h.availableMachines v hv
  · intro s k h
    obtain ⟨h1, h2, h3, h4, h5, h6, h7, h8, h9, h10⟩ := h.slots
    apply CacheOK.of_slots (s := s) <;>
      first | assumption | (intro v hv; simp [slotAvailableMachines] at hv; exact hv.symm)

theorem slotAvailableJobs_spec (c : Cfg) : SlotSpec c slotAvailableJobs (fun s => availableJobsPure c s) := by
  constructor
  · intro s v h hv; exact h.availableJobs v hv
  · intro s k h
    obtain ⟨h1, h2, h3, h4, h5, h6, h7, h8, h9, h10⟩ := h.slots
    apply CacheOK.of_slots (s := s) <;> first | assumption | (intro v hv; simp [slotAvailableJobs] at hv; exact hv.symm)

theorem slotCompleted_spec (c : Cfg) : SlotSpec c slotCompleted (fun s => completedPure c s) := by
  constructor
  · intro s v h hv; exact h.completed v hv
  · intro s k h
    obtain ⟨h1, h2, h3, h4, h5, h6, h7, h8, h9, h10⟩ := h.slots
    apply CacheOK.of_slots (s := s) <;> first | assumption | (intro v hv; simp [slotCompleted] at hv; exact hv.symm)

theorem slotUncompleted_spec (c : Cfg) : SlotSpec c slotUncompleted (fun s => uncompletedPure c s) := by
  constructor
  · intro s v h hv; exact h.uncompleted v hv
  · intro s k h
    obtain ⟨h1, h2, h3, h4, h5, h6, h7, h8, h9, h10⟩ := h.slots
    apply CacheOK.of_slots (s := s) <;> first | assumption | (intro v hv; simp [slotUncompleted] at hv; exact hv.symm)

theorem slotOngoing_spec (c : Cfg) : SlotSpec c slotOngoing (fun s => ongoingPure c s) := by
  constructor
  · intro s v h hv; exact h.ongoing v hv
  · intro s k h
    obtain ⟨h1, h2, h3, h4, h5, h6, h7, h8, h9, h10⟩ := h.slots
    apply CacheOK.of_slots (s := s) <;> first | assumption | (intro v hv; simp [slotOngoing] at hv; exact hv.symm)

/-! ## every cached method equals its pure body -/

theorem qRawReady_ok (c : Cfg) (s : State) (h : CacheOK c s) : QOk c s (qRawReady c s) (rawReady c.I s) :=
  memo_ok (slotRawReady_spec c) s h ⟨rfl, h, ⟨s.cache, rfl⟩⟩

theorem qUnscheduled_ok (c : Cfg) (s : State) (h : CacheOK c s) :
    QOk c s (qUnscheduled c s) (unscheduledPure c.I s) :=
  memo_ok (slotUnscheduled_spec c) s h ⟨rfl, h, ⟨s.cache, rfl⟩⟩

theorem qScheduled_ok (c : Cfg) (s : State) (h : CacheOK c s) :
    QOk c s (qScheduled c s) (scheduledPure c.I s) :=
  memo_ok (slotScheduled_spec c) s h ⟨rfl, h, ⟨s.cache, rfl⟩⟩

theorem qAvailable_ok (c : Cfg) (s : State) (h : CacheOK c s) : QOk c s (qAvailable c s) (availablePure c s) := by
  apply memo_ok (slotAvailable_spec c) s h
  obtain ⟨hv, hok, k, hk⟩ := qRawReady_ok c s h
  refine ⟨?_, hok, ⟨k, hk⟩⟩
  simp only [hv, hk, applyCfg_setCache, availablePure]

theorem qCurrentTime_ok (c : Cfg) (s : State) (h : CacheOK c s) :
    QOk c s (qCurrentTime c s) (currentTimePure c s) := by
  apply memo_ok (slotCurrentTime_spec c) s h
  obtain ⟨hv, hok, k, hk⟩ := qAvailable_ok c s h
  refine ⟨?_, hok, ⟨k, hk⟩⟩
  simp only [hv, hk, minStart_setCache, currentTimePure]

theorem qAvailableMachines_ok (c : Cfg) (s : State) (h : CacheOK c s) :
    QOk c s (qAvailableMachines c s) (availableMachinesPure c s) := by
  apply memo_ok (slotAvailableMachines_spec c) s h
  obtain ⟨hv, hok, k, hk⟩ := qAvailable_ok c s h
  refine ⟨?_, hok, ⟨k, hk⟩⟩
  simp only [hv, availableMachinesPure]

theorem qAvailableJobs_ok (c : Cfg) (s : State) (h : CacheOK c s) :
    QOk c s (qAvailableJobs c s) (availableJobsPure c s) := by
  apply memo_ok (slotAvailableJobs_spec c) s h
  obtain ⟨hv, hok, k, hk⟩ := qAvailable_ok c s h
  refine ⟨?_, hok, ⟨k, hk⟩⟩
  simp only [hv, availableJobsPure]

theorem qOngoing_ok (c : Cfg) (s : State) (h : CacheOK c s) : QOk c s (qOngoing c s) (ongoingPure c s) := by
  apply memo_ok (slotOngoing_spec c) s h
  obtain ⟨hv, hok, k, hk⟩ := qCurrentTime_ok c s h
  refine ⟨?_, hok, ⟨k, hk⟩⟩
  simp only [hv, hk, ongoingAt_setCache, ongoingPure]

theorem qCompleted_ok (c : Cfg) (s : State) (h : CacheOK c s) :
    QOk c s (qCompleted c s) (completedPure c s) := by
  apply memo_ok (slotCompleted_spec c) s h
  obtain ⟨hv1, hok1, k1, hk1⟩ := qScheduled_ok c s h
  obtain ⟨hv2, hok2, k2, hk2⟩ := qOngoing_ok c (qScheduled c s).2 hok1
  refine ⟨?_, hok2, ⟨k2, ?_⟩⟩
  · rw [hk1] at hv2
    simp only [hv1, hk1, hv2, ongoingPure_setCache, completedPure]
  · rw [hk1] at hk2
    simp only [hk1, hk2, setCache_setCache]

theorem qUncompleted_ok (c : Cfg) (s : State) (h : CacheOK c s) :
    QOk c s (qUncompleted c s) (uncompletedPure c s) := by
  apply memo_ok (slotUncompleted_spec c) s h
  obtain ⟨hv1, hok1, k1, hk1⟩ := qUnscheduled_ok c s h
  obtain ⟨hv2, hok2, k2, hk2⟩ := qOngoing_ok c (qUnscheduled c s).2 hok1
  refine ⟨?_, hok2, ⟨k2, ?_⟩⟩
  · rw [hk1] at hv2
    simp only [hv1, hk1, hv2, ongoingPure_setCache, uncompletedPure]
  · rw [hk1] at hk2
    simp only [hk1, hk2, setCache_setCache]

/-- `spec` does not read the memo -/
theorem findSOp_setCache (s k r) : findSOp (setCache s k) r = findSOp s r := rfl

theorem spec_setCache (c : Cfg) (s : State) (k : Cache) (q : Query) : spec c (setCache s k) q = spec c s q := by
  cases q <;> simp [spec, findSOp_setCache] <;> rfl

/-- **The method call agrees with the from-scratch answer** whenever the memo is coherent; it keeps the
memo coherent and changes nothing else. -/
theorem ask_ok (c : Cfg) (s : State) (h : CacheOK c s) (q : Query) : QOk c s (ask c s q) (spec c s q) := by
  have triv : ∀ a : Answer, QOk c s (a, s) a := fun a => ⟨rfl, h, ⟨s.cache, rfl⟩⟩
  cases q with
  | currentTime => obtain ⟨a, b, d⟩ := qCurrentTime_ok c s h; exact ⟨by simp [ask, spec, a], b, d⟩
  | available => obtain ⟨a, b, d⟩ := qAvailable_ok c s h; exact ⟨by simp [ask, spec, a], b, d⟩
  | rawReady => obtain ⟨a, b, d⟩ := qRawReady_ok c s h; exact ⟨by simp [ask, spec, a], b, d⟩
  | unscheduled => obtain ⟨a, b, d⟩ := qUnscheduled_ok c s h; exact ⟨by simp [ask, spec, a], b, d⟩
  | scheduled => obtain ⟨a, b, d⟩ := qScheduled_ok c s h; exact ⟨by simp [ask, spec, a], b, d⟩
  | uncompleted => obtain ⟨a, b, d⟩ := qUncompleted_ok c s h; exact ⟨by simp [ask, spec, a], b, d⟩
  | completed => obtain ⟨a, b, d⟩ := qCompleted_ok c s h; exact ⟨by simp [ask, spec, a], b, d⟩
  | availableMachines => obtain ⟨a, b, d⟩ := qAvailableMachines_ok c s h; exact ⟨by simp [ask, spec, a], b, d⟩
  | availableJobs => obtain ⟨a, b, d⟩ := qAvailableJobs_ok c s h; exact ⟨by simp [ask, spec, a], b, d⟩
  | ongoing => obtain ⟨a, b, d⟩ := qOngoing_ok c s h; exact ⟨by simp [ask, spec, a], b, d⟩
  | makespan => exact triv _
  | isComplete => exact triv _
  | numScheduled => exact triv _
  | isScheduled r => exact triv _
  | nextOperation j => exact triv _
  | earliestStart r => exact triv _
  | startTime r m => exact triv _
  | minStart L => exact triv _
  | isOngoing r =>
    simp only [ask, spec]
    cases hf : findSOp s r with
    | none => exact triv _
    | some x =>
      obtain ⟨a, b, d⟩ := qCurrentTime_ok c s h
      exact ⟨by simp [qIsOngoing, a], b, d⟩
  | remainingDuration r =>
    simp only [ask, spec]
    cases hf : findSOp s r with
    | none => exact triv _
    | some x =>
      obtain ⟨a, b, d⟩ := qCurrentTime_ok c s h
      exact ⟨by simp [qRemainingDuration, a], b, d⟩

end JS

import JobShopProofs.SeqAccept
/-!
# C14 — a dispatcher-built schedule survives `Schedule.to_dict()` / `Schedule.from_dict(**d)`

`Schedule.to_dict()` is `{"instance": instance.to_dict(), "job_sequences": …}` and `Schedule.from_dict(instance,
job_sequences)` is `from_job_sequences(JobShopInstance.from_matrices(**instance), job_sequences)`.

* `C14_schedule_dict_roundtrip`: for every valid non-flexible instance and every complete schedule built by a dispatcher
  history, `from_dict(**to_dict())` rebuilds the identical instance and the identical schedule.
* `C14_schedule_json_roundtrip`: the same through the JSON value tree (what `json.dump`/`json.load` round-trips: numbers,
  arrays, objects); there `from_matrices` sees an untyped machines matrix and `Operation(machines=…)` wraps an `int`
  into a one-element list, entry by entry.
-/
namespace JS

/-! ## `Valid` gives `HasMachine`, `NonFlexH` gives "not flexible" -/

theorem getOp_of_mem {I : Instance} {job : List Op} {op : Op} (hj : job ∈ I) (ho : op ∈ job) :
    ∃ j p, getOp I j p = some op := by
  obtain ⟨j, hjl, rfl⟩ := List.getElem_of_mem hj
  obtain ⟨p, hpl, rfl⟩ := List.getElem_of_mem ho
  exact ⟨j, p, by simp [getOp, List.getElem?_eq_getElem hjl, List.getElem?_eq_getElem hpl]⟩

theorem hasMachine_of_valid {I : Instance} (hv : Valid I) : HasMachine I := by
  intro job hj op ho
  obtain ⟨j, p, h⟩ := getOp_of_mem hj ho
  exact (hv j p op h).1

theorem nonFlex_of_nonFlexH {I : Instance} (hn : NonFlexH I) : NonFlex I := by
  intro job hj op ho
  obtain ⟨j, p, h⟩ := getOp_of_mem hj ho
  obtain ⟨m, hm⟩ := hn j p op h
  simp [hm]

/-! ## the dictionary form -/

/-- `Schedule.to_dict()`: the instance's dictionary (duration and machine matrices) and the per-machine job sequences -/
def schedToDict (I : Instance) (s : State) := (toDict I, jobSequences s)

/-- `Schedule.from_dict(**d)` -/
def schedFromDict (d : (List (List Int) × MachinesMatrix) × List (List Nat)) : Instance × SeqResult :=
  let I' := fromMatrices d.1.1 d.1.2
  (I', fromJobSequences I' (numOps I' + 1) d.2 (init I'))

/-- the instance part alone: for every instance whose operations all have a machine (flexible or not), and any state,
`from_dict(**to_dict())` runs `from_job_sequences` on the identical instance -/
theorem schedFromDict_toDict (I : Instance) (hm : HasMachine I) (s : State) :
    schedFromDict (schedToDict I s) = (I, fromJobSequences I (numOps I + 1) (jobSequences s) (init I)) := by
  simp only [schedFromDict, schedToDict, C14_dict_roundtrip I hm]

/-- **C14 (schedule dictionary round trip).** For every valid non-flexible instance and every complete schedule built by
a history of dispatcher requests, `Schedule.from_dict(**schedule.to_dict())` returns a schedule (no error) for the
identical instance with the identical per-machine lists (operation, machine, start time, order). -/
theorem C14_schedule_dict_roundtrip (c : Cfg) (hv : Valid c.I) (hn : NonFlexH c.I) (evs : List Ev)
    (hcomp : isComplete c.I (run c evs) = true) :
    ∃ s', schedFromDict (schedToDict c.I (run c evs)) = (c.I, .ok s') ∧ s'.sched = (run c evs).sched := by
  obtain ⟨s', h1, h2⟩ := C14_seq_rebuild c hv hn evs hcomp
  exact ⟨s', by rw [schedFromDict_toDict c.I (hasMachine_of_valid hv), h1], h2⟩

/-! ## the JSON-shaped form

What `json.dump` / `json.load` round-trip is a value tree of numbers, arrays and objects; the flexible / non-flexible tag
of `MachinesMatrix` does not exist there: `from_matrices` passes each entry of the machines matrix to
`Operation(machines=…)`, which wraps an `int` into a one-element list and keeps a list. -/

/-- JSON values occurring in `Schedule.to_dict()` (`name` and `metadata` are carried along unchanged, not modelled) -/
inductive Json
  | num (n : Int)
  | arr (l : List Json)
  | obj (kv : List (String × Json))
deriving Inhabited

namespace Json
def ofInt (n : Int) : Json := .num n
def ofNat (n : Nat) : Json := .num (n : Int)
def ofList {α} (f : α → Json) (l : List α) : Json := .arr (l.map f)

def asInt : Json → Option Int
  | .num n => some n
  | _ => none
/-- an id (machine id, job id); negative numbers are outside the model -/
def asNat : Json → Option Nat
  | .num n => if 0 ≤ n then some n.toNat else none
  | _ => none
def asArr : Json → Option (List Json)
  | .arr l => some l
  | _ => none
/-- `d[key]` -/
def field (k : String) : Json → Option Json
  | .obj kv => kv.lookup k
  | _ => none
def asList {α} (f : Json → Option α) (j : Json) : Option (List α) := j.asArr.bind fun l => l.mapM f
end Json

/-- `machines_matrix` as a JSON value -/
def machinesMatrixJson : MachinesMatrix → Json
  | .flex m => Json.ofList (Json.ofList (Json.ofList Json.ofNat)) m
  | .single m => Json.ofList (Json.ofList Json.ofNat) m

/-- `instance.to_dict()` as a JSON value -/
def instanceToJson (I : Instance) : Json :=
  .obj [("duration_matrix", Json.ofList (Json.ofList Json.ofInt) (toDict I).1),
        ("machines_matrix", machinesMatrixJson (toDict I).2)]

/-- `Schedule.to_dict()` as a JSON value -/
def schedToJson (I : Instance) (s : State) : Json :=
  .obj [("instance", instanceToJson I), ("job_sequences", Json.ofList (Json.ofList Json.ofNat) (jobSequences s))]

/-- `Operation(machines=m)`: an `int` becomes `[m]`, a list stays -/
def machinesOfJson : Json → Option (List Nat)
  | .num n => (Json.num n).asNat.map fun m => [m]
  | j => j.asList Json.asNat

/-- `JobShopInstance.from_matrices(**d)` on decoded JSON: every entry of the machines matrix goes through
`Operation(machines=…)`; the result is `none` when the value does not have the shape of matrices of numbers -/
def fromMatricesJson (d m : Json) : Option Instance :=
  (d.asList fun r => r.asList Json.asInt).bind fun dm =>
  (m.asList fun r => r.asList machinesOfJson).bind fun mm =>
  some (fromMatrices dm (.flex mm))

/-- `Schedule.from_dict(**json.loads(…))` -/
def schedFromJson (j : Json) : Option (Instance × SeqResult) :=
  (j.field "instance").bind fun ij =>
  (ij.field "duration_matrix").bind fun dj =>
  (ij.field "machines_matrix").bind fun mj =>
  (fromMatricesJson dj mj).bind fun I' =>
  (j.field "job_sequences").bind fun sj =>
  (sj.asList fun r => r.asList Json.asNat).bind fun seqs =>
  some (I', fromJobSequences I' (numOps I' + 1) seqs (init I'))

theorem mapM_map_some {α β γ} (enc : α → β) (dec : β → Option γ) (g : α → γ) : ∀ (l : List α),
    (∀ x ∈ l, dec (enc x) = some (g x)) → (l.map enc).mapM dec = some (l.map g)
  | [], _ => by simp
  | a :: t, h => by
    simp only [List.map_cons, List.mapM_cons, h a (by simp),
      mapM_map_some enc dec g t (fun x hx => h x (by simp [hx]))]
    rfl

/-- decoding an encoded array, when decoding an encoded element `x` yields `g x` -/
theorem Json.asList_ofList_map {α γ} (enc : α → Json) (dec : Json → Option γ) (g : α → γ) (l : List α)
    (h : ∀ x ∈ l, dec (enc x) = some (g x)) : (Json.ofList enc l).asList dec = some (l.map g) := by
  simp only [Json.asList, Json.ofList, Json.asArr, Option.bind_some]
  exact mapM_map_some enc dec g l h

theorem Json.asList_ofList {α} (enc : α → Json) (dec : Json → Option α) (l : List α)
    (h : ∀ x ∈ l, dec (enc x) = some x) : (Json.ofList enc l).asList dec = some l := by
  have := Json.asList_ofList_map enc dec id l h
  simpa using this

theorem Json.asInt_ofInt (n : Int) : (Json.ofInt n).asInt = some n := rfl

theorem Json.asNat_ofNat (n : Nat) : (Json.ofNat n).asNat = some n := by
  simp [Json.asNat, Json.ofNat]

theorem machinesOfJson_ofNat (n : Nat) : machinesOfJson (Json.ofNat n) = some [n] := by
  have := Json.asNat_ofNat n
  simp only [Json.ofNat] at this
  simp [machinesOfJson, Json.ofNat, this]

theorem machinesOfJson_ofList (l : List Nat) : machinesOfJson (Json.ofList Json.ofNat l) = some l := by
  have := Json.asList_ofList Json.ofNat Json.asNat l (fun x _ => Json.asNat_ofNat x)
  simpa [machinesOfJson, Json.ofList] using this

theorem natMatrix_json (m : List (List Nat)) :
    (Json.ofList (Json.ofList Json.ofNat) m).asList (fun r => r.asList Json.asNat) = some m :=
  Json.asList_ofList _ _ m fun r _ => Json.asList_ofList _ _ r fun x _ => Json.asNat_ofNat x

theorem intMatrix_json (m : List (List Int)) :
    (Json.ofList (Json.ofList Json.ofInt) m).asList (fun r => r.asList Json.asInt) = some m :=
  Json.asList_ofList _ _ m fun r _ => Json.asList_ofList _ _ r fun x _ => Json.asInt_ofInt x

/-- decoding the machines matrix, entry by entry through `Operation(machines=…)`, yields every operation's machine
list — in the flexible form directly, in the non-flexible form because every operation has exactly one machine -/
theorem machinesMatrix_json (I : Instance) (hm : HasMachine I) :
    (machinesMatrixJson (machinesMatrix I)).asList (fun r => r.asList machinesOfJson)
      = some (I.map fun job => job.map (·.machines)) := by
  unfold machinesMatrix
  by_cases hf : isFlexible I = true
  · simp only [hf, ↓reduceIte, machinesMatrixJson]
    exact Json.asList_ofList _ _ _ fun r _ => Json.asList_ofList _ _ r fun x _ => machinesOfJson_ofList x
  · have hf' : isFlexible I = false := by simpa using hf
    have hle := (not_flexible_iff I).1 hf'
    simp only [hf', Bool.false_eq_true, ↓reduceIte, machinesMatrixJson]
    have h1 : (I.map fun job => job.map (·.machines)) =
        (I.map fun job => job.map fun op => op.machines.headD 0).map fun r => r.map fun m => [m] := by
      simp only [List.map_map]
      apply List.map_congr_left
      intro job hj
      simp only [Function.comp_apply, List.map_map]
      apply List.map_congr_left
      intro op ho
      have h1 := hle job hj op ho
      have h2 := hm job hj op ho
      cases hms : op.machines with
      | nil => exact absurd hms h2
      | cons a t =>
        rw [hms] at h1
        simp only [List.length_cons] at h1
        have : t = [] := List.eq_nil_of_length_eq_zero (by omega)
        subst this
        simp [hms]
    rw [h1]
    exact Json.asList_ofList_map _ _ _ _ fun r _ => Json.asList_ofList_map _ _ _ r fun x _ => machinesOfJson_ofNat x

/-- **C14 (instance JSON round trip).** For every instance whose operations all have a machine — flexible or not —
`from_matrices` applied to the JSON value of `to_dict()` reproduces the same operations. -/
theorem C14_instance_json_roundtrip (I : Instance) (hm : HasMachine I) :
    fromMatricesJson (Json.ofList (Json.ofList Json.ofInt) (toDict I).1) (machinesMatrixJson (toDict I).2) = some I := by
  simp only [fromMatricesJson, toDict, intMatrix_json, machinesMatrix_json I hm, Option.bind_some]
  have := rebuild_rows I (fun job => job.map (·.machines)) (fun ms d => ⟨ms, d⟩)
    (by intro job _; simp) (by intro job _ p h; simp) []
  simp only [fromMatrices, durationsMatrix]
  simpa using this

/-- the instance part alone: for every instance whose operations all have a machine and any state, decoding the JSON
value of `Schedule.to_dict()` runs `from_job_sequences` on the identical instance with the identical job sequences -/
theorem schedFromJson_toJson (I : Instance) (hm : HasMachine I) (s : State) :
    schedFromJson (schedToJson I s) = some (I, fromJobSequences I (numOps I + 1) (jobSequences s) (init I)) := by
  have h1 : (schedToJson I s).field "instance" = some (instanceToJson I) := by
    simp [schedToJson, Json.field, List.lookup]
  have h2 : (schedToJson I s).field "job_sequences" =
      some (Json.ofList (Json.ofList Json.ofNat) (jobSequences s)) := by
    simp [schedToJson, Json.field, List.lookup]
  have h3 : (instanceToJson I).field "duration_matrix" = some (Json.ofList (Json.ofList Json.ofInt) (toDict I).1) := by
    simp [instanceToJson, Json.field, List.lookup]
  have h4 : (instanceToJson I).field "machines_matrix" = some (machinesMatrixJson (toDict I).2) := by
    simp [instanceToJson, Json.field, List.lookup]
  simp only [schedFromJson, h1, h2, h3, h4, Option.bind_some, C14_instance_json_roundtrip I hm, natMatrix_json]

/-- **C14 (schedule JSON round trip).** For every valid non-flexible instance and every complete schedule built by a
history of dispatcher requests, `Schedule.from_dict(**d)` applied to the JSON value `d` of `schedule.to_dict()` decodes
(no shape error), returns a schedule (no exception) for the identical instance, with the identical per-machine lists. -/
theorem C14_schedule_json_roundtrip (c : Cfg) (hv : Valid c.I) (hn : NonFlexH c.I) (evs : List Ev)
    (hcomp : isComplete c.I (run c evs) = true) :
    ∃ s', schedFromJson (schedToJson c.I (run c evs)) = some (c.I, .ok s') ∧ s'.sched = (run c evs).sched := by
  obtain ⟨s', h1, h2⟩ := C14_seq_rebuild c hv hn evs hcomp
  exact ⟨s', by rw [schedFromJson_toJson c.I (hasMachine_of_valid hv), h1], h2⟩

/-- the two forms agree on what they rebuild -/
theorem schedFromJson_eq_schedFromDict (I : Instance) (hm : HasMachine I) (s : State) :
    schedFromJson (schedToJson I s) = some (schedFromDict (schedToDict I s)) := by
  rw [schedFromJson_toJson I hm, schedFromDict_toDict I hm]

/-! ## non-vacuity

`rebuildInstance` is non-flexible, has zero durations and recirculation (job 0 visits machine 0 twice);
`rebuildHistory` is a complete history with a rejected request, a reset and a query. -/

/-- the schedule of a returned result -/
def SeqResult.sched? : SeqResult → Option (List (List SOp))
  | .ok s => some s.sched
  | _ => none

example : (schedFromDict (schedToDict rebuildInstance (run { I := rebuildInstance } rebuildHistory))).1
    = rebuildInstance := by decide
example : (schedFromDict (schedToDict rebuildInstance (run { I := rebuildInstance } rebuildHistory))).2.sched?
    = some (run { I := rebuildInstance } rebuildHistory).sched := by decide
example : (schedFromDict (schedToDict rebuildInstance (run { I := rebuildInstance } rebuildHistory))).2.sched?
    = some [[⟨0, 0, 0, 0, 0⟩, ⟨1, 0, 0, 0, 0⟩, ⟨0, 2, 0, 2, 0⟩], [⟨0, 1, 1, 0, 2⟩, ⟨1, 1, 1, 2, 0⟩]] := by decide
example : (schedFromJson (schedToJson rebuildInstance (run { I := rebuildInstance } rebuildHistory))).map
    (fun r => (r.1, r.2.sched?))
    = some (rebuildInstance, some (run { I := rebuildInstance } rebuildHistory).sched) := by decide
/-- a flexible instance also survives the JSON form of `to_dict()` -/
example : fromMatricesJson (Json.ofList (Json.ofList Json.ofInt) (toDict exampleInstance).1)
    (machinesMatrixJson (toDict exampleInstance).2) = some exampleInstance := by decide
/-- the hypotheses cannot be dropped altogether: an operation without machines does not survive the non-flexible
dictionary form (`machines[0]` raises; in the model it comes back as machine 0) -/
example : (schedFromDict (schedToDict [[⟨[], 1⟩]] (init [[⟨[], 1⟩]]))).1 ≠ [[⟨[], 1⟩]] := by decide

end JS

import JobShopModel.FeatureSpecs
import JobShopModel.Features
import JobShopProofs.Properties.C06
/-!
# Feature observers: what the incremental updates compute

Step lemmas: for each incremental observer, the initial value is the from-scratch specification and one
update across an accepted dispatch maps the specification of the old state to the specification of the
new state.
-/
namespace JS

/-! ## unscheduled operations of one job -/

def unschedJob (I : Instance) (s : State) (j : Nat) : List OpRef :=
  ((List.range (I.getD j []).length).drop (s.jobIdx.getD j 0)).map fun p => (j, p)

theorem flatMap_single {β} (f : Nat → List β) (j : Nat) : ∀ n,
    (List.range n).flatMap (fun j' => if j' = j then f j' else []) = if j < n then f j else []
  | 0 => by simp
  | n + 1 => by
    rw [List.range_succ, List.flatMap_append, flatMap_single f j n]
    simp only [List.flatMap_cons, List.flatMap_nil, List.append_nil]
    by_cases h1 : j < n
    · have : ¬ n = j := by omega
      simp [h1, this, Nat.lt_succ_of_lt h1]
    · by_cases h2 : n = j
      · subst h2; simp
      · have : ¬ j < n + 1 := by omega
        simp [h1, h2, this]

theorem filter_unscheduled_job (I : Instance) (s : State) (j : Nat) :
    (unscheduledPure I s).filter (fun r => r.1 == j) = if j < I.length then unschedJob I s j else [] := by
  unfold unscheduledPure
  rw [List.filter_flatMap]
  have : ∀ j', ((((List.range (I.getD j' []).length).drop (s.jobIdx.getD j' 0)).map fun p => (j', p)).filter
      fun r => r.1 == j) = if j' = j then unschedJob I s j' else [] := by
    intro j'
    by_cases h : j' = j
    · subst h
      simp only [↓reduceIte, unschedJob]
      rw [List.filter_eq_self]
      intro a ha
      simp only [List.mem_map] at ha
      obtain ⟨p, _, rfl⟩ := ha
      simp
    · simp only [h, ↓reduceIte]
      rw [List.filter_eq_nil_iff]
      intro a ha
      simp only [List.mem_map] at ha
      obtain ⟨p, _, rfl⟩ := ha
      simpa using h
  simp only [this]
  rw [flatMap_single (fun j' => unschedJob I s j') j I.length]

/-- after an accepted dispatch of `(j, p)` the unscheduled operations of job `j` lose their head `(j, p)`,
those of other jobs are unchanged -/
theorem unschedJob_dispatch {I : Instance} {s s' : State} {j p m : Nat} {op : Op} (hwf : WF I s)
    (hd : DispSpec I s s' j p m op) (j' : Nat) :
    (j' ≠ j → unschedJob I s' j' = unschedJob I s j') ∧
    unschedJob I s j = (j, p) :: unschedJob I s' j := by
  obtain ⟨_, hji, _⟩ := dispSpec_vectors hwf hd
  constructor
  · intro hne
    unfold unschedJob
    rw [hji]; simp [hne]
  · unfold unschedJob
    rw [hji]; simp only [↓reduceIte]
    rw [hd.hidx]
    have hlen : p < (I.getD j []).length := getD_length_of_getOp.1 (by simp [hd.hop])
    rw [List.drop_eq_getElem_cons (by simpa using hlen)]
    simp

/-! ## DurationObserver, job level -/

theorem durJobsSpec_dispatch {I : Instance} {s s' : State} {j p m : Nat} {op : Op} (hwf : WF I s)
    (hd : DispSpec I s s' j p m op) :
    durJobsSpec I s' = addAt (durJobsSpec I s) j (-op.dur) := by
  have hj : j < I.length := getOp_job_lt' I j p op hd.hop
  unfold durJobsSpec addAt
  apply List.ext_getElem
  · simp
  · intro k h1 h2
    simp only [List.length_map, List.length_range] at h1
    simp only [List.getElem_map, List.getElem_range, List.getElem_modify, filter_unscheduled_job, h1, ↓reduceIte]
    obtain ⟨hother, hsame⟩ := unschedJob_dispatch hwf hd k
    by_cases hk : j = k
    · subst hk
      simp only [↓reduceIte]
      rw [(unschedJob_dispatch hwf hd j).2]
      simp only [List.map_cons, List.sum_cons, opDurF, hd.hop]
      omega
    · simp only [hk, ↓reduceIte]
      rw [hother (fun h => hk h.symm)]

/-! ## columns of a feature observer -/

theorem find_map_same (ft : FT) (c : List Int) : ∀ (l : List (FT × List (List Int))), (∃ cs, (ft, cs) ∈ l) →
    (l.map fun (tc : FT × List (List Int)) => if tc.1 == ft then (tc.1, [c]) else (tc.1, tc.2)).find? (·.1 == ft)
      = some (ft, [c])
  | [], h => by obtain ⟨_, h⟩ := h; cases h
  | (t1, cs1) :: t, h => by
    simp only [List.map_cons, List.find?_cons]
    by_cases he : t1 = ft
    · subst he; simp
    · have hne : (t1 == ft) = false := by simpa using he
      simp only [hne, Bool.false_eq_true, ↓reduceIte]
      obtain ⟨cs, hcs⟩ := h
      rcases List.mem_cons.1 hcs with h1 | h1
      · cases h1; exact absurd rfl he
      · exact find_map_same ft c t ⟨cs, h1⟩

theorem find_map_other (ft ft' : FT) (c : List Int) (hne : ft' ≠ ft) : ∀ (l : List (FT × List (List Int))),
    (l.map fun (tc : FT × List (List Int)) => if tc.1 == ft then (tc.1, [c]) else (tc.1, tc.2)).find? (·.1 == ft')
      = l.find? (·.1 == ft')
  | [] => rfl
  | (t1, cs1) :: t => by
    simp only [List.map_cons, List.find?_cons]
    by_cases he : t1 = ft
    · rw [he]
      have : (ft == ft') = false := by simpa using fun h => hne h.symm
      simp only [beq_self_eq_true, ↓reduceIte, this]
      exact find_map_other ft ft' c hne t
    · have h1 : (t1 == ft) = false := by simpa using he
      simp only [h1, Bool.false_eq_true, ↓reduceIte]
      by_cases h2 : t1 = ft'
      · subst h2; simp
      · have : (t1 == ft') = false := by simpa using h2
        simp only [this]
        exact find_map_other ft ft' c hne t

theorem col_setCol_same (o : FObs) (ft : FT) (c : List Int) (h : ∃ cs, (ft, cs) ∈ o.cols) :
    (o.setCol ft c).col ft = c := by
  unfold FObs.setCol FObs.col
  simp only
  rw [find_map_same ft c o.cols h]

theorem col_setCol_other (o : FObs) (ft ft' : FT) (c : List Int) (hne : ft' ≠ ft) :
    (o.setCol ft c).col ft' = o.col ft' := by
  unfold FObs.setCol FObs.col
  simp only
  rw [find_map_other ft ft' c hne o.cols]

theorem setCol_keys (o : FObs) (ft : FT) (c : List Int) : (o.setCol ft c).cols.map (·.1) = o.cols.map (·.1) := by
  unfold FObs.setCol
  simp only [List.map_map]
  apply List.map_congr_left
  intro a _
  obtain ⟨t, cs⟩ := a
  simp only [Function.comp_apply]
  split <;> rfl

theorem setCol_fts (o : FObs) (ft : FT) (c : List Int) : (o.setCol ft c).fts = o.fts := rfl
theorem setCol_kind (o : FObs) (ft : FT) (c : List Int) : (o.setCol ft c).kind = o.kind := rfl

/-- a well-formed feature observer: one matrix per observed feature type, no type twice -/
structure FObs.WF (o : FObs) : Prop where
  keys : o.cols.map (·.1) = o.fts
  nodup : o.fts.Nodup

theorem FObs.WF.setCol {o : FObs} (h : o.WF) (ft : FT) (c : List Int) : (o.setCol ft c).WF :=
  ⟨by rw [setCol_keys, setCol_fts]; exact h.keys, h.nodup⟩

theorem FObs.WF.has_col {o : FObs} (h : o.WF) {ft : FT} (hft : ft ∈ o.fts) : ∃ cs, (ft, cs) ∈ o.cols := by
  rw [← h.keys] at hft
  obtain ⟨a, ha, rfl⟩ := List.mem_map.1 hft
  exact ⟨a.2, ha⟩

theorem zeroed_wf (I : Instance) (o : FObs) (hnd : o.fts.Nodup) : (o.zeroed I).WF := by
  constructor
  · simp [FObs.zeroed, List.map_map, Function.comp_def]
  · exact hnd

/-- folding `setCol` over the feature types: each observed type ends up with the value assigned to it -/
theorem fold_setCol_col (g : FObs → FT → List Int) (hg : ∀ o ft ft' c, ft ≠ ft' → g (o.setCol ft' c) ft = g o ft) :
    ∀ (l : List FT) (o : FObs), o.WF → (∀ ft ∈ l, ft ∈ o.fts) → l.Nodup → ∀ ft, ft ∈ l →
      ((l.foldl (fun o ft => o.setCol ft (g o ft)) o).col ft = g o ft) ∧ (l.foldl (fun o ft => o.setCol ft (g o ft)) o).WF
  | [], o, hw, _, _, ft, h => by cases h
  | a :: t, o, hw, hsub, hnd, ft, hmem => by
    simp only [List.foldl_cons]
    rw [List.nodup_cons] at hnd
    have hw' := hw.setCol a (g o a)
    have hsub' : ∀ ft ∈ t, ft ∈ (o.setCol a (g o a)).fts := fun x hx => hsub x (by simp [hx])
    rcases List.mem_cons.1 hmem with rfl | hmem
    · -- later steps do not touch ft
      have : ∀ (l : List FT) (o' : FObs), ft ∉ l → o'.WF →
          (l.foldl (fun o ft => o.setCol ft (g o ft)) o').col ft = o'.col ft ∧
          (l.foldl (fun o ft => o.setCol ft (g o ft)) o').WF := by
        intro l
        induction l with
        | nil => intro o' _ hw'; exact ⟨rfl, hw'⟩
        | cons b l ih =>
          intro o' hn hw'
          simp only [List.foldl_cons]
          have hb : ft ≠ b := fun h => hn (by simp [h])
          obtain ⟨h1, h2⟩ := ih (o'.setCol b (g o' b)) (fun h => hn (by simp [h])) (hw'.setCol b _)
          exact ⟨by rw [h1, col_setCol_other _ _ _ _ hb], h2⟩
      obtain ⟨h1, h2⟩ := this t _ hnd.1 hw'
      exact ⟨by rw [h1, col_setCol_same o ft _ (hw.has_col (hsub ft (by simp)))], h2⟩
    · obtain ⟨h1, h2⟩ := fold_setCol_col g hg t _ hw' hsub' hnd.2 ft hmem
      have hne : ft ≠ a := fun h => hnd.1 (h ▸ hmem)
      exact ⟨by rw [h1, hg _ _ _ _ hne], h2⟩

/-- `assignCols`: each observed feature type ends up with the value `g` assigns to it (given that `g` for one
type does not look at the columns of the other types) -/
theorem assignCols_col (o : FObs) (g : FObs → FT → List Int) (hw : o.WF)
    (hg : ∀ o ft ft' c, ft ≠ ft' → g (o.setCol ft' c) ft = g o ft) (ft : FT) (hft : ft ∈ o.fts) :
    (o.assignCols g).col ft = g o ft ∧ (o.assignCols g).WF :=
  fold_setCol_col g hg o.fts o hw (fun _ h => h) hw.nodup ft hft

theorem assignCols_fts (o : FObs) (g : FObs → FT → List Int) : (o.assignCols g).fts = o.fts := by
  unfold FObs.assignCols
  have : ∀ (l : List FT) (o : FObs), (l.foldl (fun o ft => o.setCol ft (g o ft)) o).fts = o.fts := by
    intro l
    induction l with
    | nil => intro o; rfl
    | cons a t ih => intro o; simp only [List.foldl_cons]; rw [ih]; rfl
  exact this o.fts o

end JS
